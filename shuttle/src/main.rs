//! c19shuttle - third engine of the C19 check: the lexer, rebuilt with shuttle's sync
//! primitives / threads / thread-locals substituted for std's (tools/shadow.py), runs a
//! seeded concurrent scenario under shuttle's random and PCT schedulers. Every lock,
//! atomic, once and thread-local access a change may add to the lexer is a scheduling point
//! owned by the seeded scheduler, and a failing schedule is persisted and replayed exactly.
//!
//! usage:
//!   c19shuttle run --catalogue DIR --tier T --ref REFS.tsv --seed S --iterations N
//!                  --scheduler random|pct --schedule-dir DIR --out FILE [--gated-permille G]
//!   c19shuttle replay --catalogue DIR --tier T --ref REFS.tsv --seed S --iterations N --scheduler K
//!                  (re-runs the identical batch: statics of the lexer persist across
//!                   iterations, so the batch, not one schedule, is the replay unit)

#[path = "../../sim/src/catalogue.rs"]
mod catalogue;
#[path = "../../sim/src/dump.rs"]
mod dump;
#[path = "../../sim/src/util.rs"]
mod util;

use sas_lexer::{lex_program, LexResult};
use shuttle::rand::Rng as _;
use shuttle::scheduler::{PctScheduler, RandomScheduler};
use shuttle::sync::{Arc, Mutex};
use shuttle::{Config, FailurePersistence, MaxSteps, Runner};
use std::collections::HashMap;
use std::sync::atomic::{AtomicU64, Ordering};

struct Ctx {
    /// (id, text, expected key) - only sources whose reference outcome is `Returned`
    pool: Vec<(String, String, String)>,
    /// indices of pool sources of at most 2000 bytes with at least 8 distinct words
    wordy: Vec<usize>,
    /// gated-churn scenarios per 1000 iterations
    gated_permille: u32,
}

static LEX_CALLS: AtomicU64 = AtomicU64::new(0);
static SHARED_WALKS: AtomicU64 = AtomicU64::new(0);
static THREADS: AtomicU64 = AtomicU64::new(0);
static GATED_CHURNS: AtomicU64 = AtomicU64::new(0);

struct Budget;

fn install_budget(len: usize) {
    #[cfg(sas_lexer_verif)]
    {
        use sas_lexer::verif::{self, Event};
        let budget = 64 * len as u64 + 4096;
        let mut steps = 0u64;
        let mut events = 0u64;
        verif::set_callback(Some(Box::new(move |ev: &Event| {
            if let Event::MainLoop { .. } = ev {
                steps += 1;
                if steps > budget {
                    std::panic::panic_any(Budget);
                }
            }
            // every hook event is a scheduling point too (a plain one: `sleep(0)`, not
            // `yield_now`, which PCT treats as a priority hint), so that a call can be
            // preempted half-way through a helper as well as at its sync operations
            // (on sources above 4 KB only at every 64th event, to bound the step count)
            events += 1;
            if len <= 4096 || events % 64 == 0 {
                shuttle::thread::sleep(std::time::Duration::ZERO);
            }
        })));
    }
    let _ = len;
}

fn key_of(src: &str, res: &LexResult) -> String {
    format!("R:{}", dump::hash_result(&src, res, &mut || {}).hex())
}

fn lex_and_check(ctx: &Ctx, i: usize, text: &str, what: &str) -> LexResult {
    install_budget(text.len());
    let res = lex_program(&text).expect("lex_program returned Err");
    LEX_CALLS.fetch_add(1, Ordering::Relaxed);
    let key = key_of(text, &res);
    let (id, _, expect) = &ctx.pool[i];
    assert!(
        &key == expect,
        "C19 mismatch ({what}) on source {id} {:?}: expected {expect} got {key}",
        util::esc(text.as_bytes())
    );
    res
}

/// Thread churn: one long-lived thread keeps lexing while ~70 short-lived threads are
/// created one after the other (state keyed by thread identity or creation ordinal).
fn churn_scenario(ctx: &std::sync::Arc<Ctx>) {
    let mut rng = shuttle::rand::thread_rng();
    let first = rng.gen_range(0..ctx.pool.len());
    let near = |rng: &mut shuttle::rand::rngs::ThreadRng| (first + rng.gen_range(0usize..9)).saturating_sub(4).min(ctx.pool.len() - 1);
    let long_lived = {
        let ctx = ctx.clone();
        let picks: Vec<usize> = (0..12).map(|_| near(&mut rng)).collect();
        shuttle::thread::spawn(move || {
            THREADS.fetch_add(1, Ordering::Relaxed);
            for i in picks {
                let text = ctx.pool[i].1.clone();
                if text.len() <= 200 {
                    let _ = lex_and_check(&ctx, i, &text, "long-lived thread during churn");
                }
            }
            #[cfg(sas_lexer_verif)]
            sas_lexer::verif::set_callback(None);
        })
    };
    for _ in 0..70 {
        let ctx = ctx.clone();
        let i = near(&mut rng);
        let h = shuttle::thread::spawn(move || {
            THREADS.fetch_add(1, Ordering::Relaxed);
            let text = ctx.pool[i].1.clone();
            if text.len() <= 200 {
                let _ = lex_and_check(&ctx, i, &text, "short-lived thread during churn");
            }
            #[cfg(sas_lexer_verif)]
            sas_lexer::verif::set_callback(None);
        });
        h.join().unwrap();
    }
    long_lived.join().unwrap();
}

/// Gated churn: thread A lexes once (claiming whatever per-thread ordinal / shard / slot a
/// change hands out at first use) and parks at a barrier; 2^k - 1 short-lived threads are
/// created one after the other and each lexes a little; then thread B (and sometimes C) is
/// created - its creation ordinal is 2^k (mostly 64) after A's - and A, B, C lex similar
/// sources several times *at the same time*. State keyed by "thread ordinal modulo N" now
/// collides between two live threads, with every atomic of it a scheduling point.
fn gated_churn_scenario(ctx: &std::sync::Arc<Ctx>) {
    GATED_CHURNS.fetch_add(1, Ordering::Relaxed);
    let mut rng = shuttle::rand::thread_rng();
    // mostly sources with many identifiers (more lookups, more shared slots per call)
    let first = if !ctx.wordy.is_empty() && rng.gen_range(0u32..4) != 0 {
        ctx.wordy[rng.gen_range(0..ctx.wordy.len())]
    } else {
        rng.gen_range(0..ctx.pool.len())
    };
    let near = |rng: &mut shuttle::rand::rngs::ThreadRng| (first + rng.gen_range(0usize..9)).saturating_sub(4).min(ctx.pool.len() - 1);
    let small = |ctx: &Ctx, i: usize| ctx.pool[i].1.len() <= 2000;
    let distance = match rng.gen_range(0u32..8) {
        0 => 16usize,
        1 => 32,
        2 => 128,
        3 => 256,
        _ => 64,
    };
    let extra = rng.gen_range(0usize..2);
    let parties = 2 + extra;
    let barrier = Arc::new(shuttle::sync::Barrier::new(parties));
    let rounds = rng.gen_range(2usize..5);
    let mut live = Vec::new();
    let spawn_live = |rng: &mut shuttle::rand::rngs::ThreadRng, warm: bool, what: &'static str| {
        let ctx = ctx.clone();
        let barrier = barrier.clone();
        let picks: Vec<usize> = (0..rounds).map(|_| near(rng)).collect();
        shuttle::thread::spawn(move || {
            THREADS.fetch_add(1, Ordering::Relaxed);
            if warm {
                let i = picks[0];
                if small(&ctx, i) {
                    let text = ctx.pool[i].1.clone();
                    let _ = lex_and_check(&ctx, i, &text, what);
                } else {
                    install_budget(3);
                    let _ = lex_program(&"a b").map(|_| ());
                }
            }
            barrier.wait();
            for _ in 0..2 {
                for &i in &picks {
                    if small(&ctx, i) {
                        let text = ctx.pool[i].1.clone();
                        let _ = lex_and_check(&ctx, i, &text, what);
                    }
                }
            }
            #[cfg(sas_lexer_verif)]
            sas_lexer::verif::set_callback(None);
        })
    };
    live.push(spawn_live(&mut rng, true, "thread A of a gated churn"));
    for k in 0..distance - 1 {
        let ctx = ctx.clone();
        let i = near(&mut rng);
        let h = shuttle::thread::spawn(move || {
            THREADS.fetch_add(1, Ordering::Relaxed);
            // every short-lived thread lexes at least an identifier (first-use initialisers)
            if k % 4 == 0 && ctx.pool[i].1.len() <= 200 {
                let text = ctx.pool[i].1.clone();
                let _ = lex_and_check(&ctx, i, &text, "short-lived thread of a gated churn");
            } else {
                install_budget(3);
                let _ = lex_program(&"a b").map(|_| ());
            }
            #[cfg(sas_lexer_verif)]
            sas_lexer::verif::set_callback(None);
        });
        h.join().unwrap();
    }
    live.push(spawn_live(&mut rng, false, "thread B of a gated churn"));
    if extra == 1 {
        live.push(spawn_live(&mut rng, false, "thread C of a gated churn"));
    }
    for h in live {
        h.join().unwrap();
    }
}

fn scenario(ctx: &std::sync::Arc<Ctx>) {
    let mut rng = shuttle::rand::thread_rng();
    if rng.gen_range(0u32..1000) < ctx.gated_permille {
        return gated_churn_scenario(ctx);
    }
    if rng.gen_range(0u32..40) == 0 {
        return churn_scenario(ctx);
    }
    let nthreads = rng.gen_range(2usize..6);
    let npool = rng.gen_range(1usize..4);
    // similar sources exercise the same code paths at the same time: after the first pick the
    // others are the same source, a catalogue neighbour (a prefix / variant of it), or random
    let first = rng.gen_range(0..ctx.pool.len());
    let picks: Vec<usize> = (0..npool)
        .map(|k| {
            if k == 0 {
                first
            } else {
                match rng.gen_range(0u32..4) {
                    0 => first,
                    1 | 2 => (first + rng.gen_range(0usize..17)).saturating_sub(8).min(ctx.pool.len() - 1),
                    _ => rng.gen_range(0..ctx.pool.len()),
                }
            }
        })
        .collect();
    // one buffer per picked source shared by every thread (same address everywhere)
    let shared_bufs: Vec<Arc<String>> = picks.iter().map(|&i| Arc::new(ctx.pool[i].1.clone())).collect();
    let results: Arc<Mutex<Vec<(usize, Arc<LexResult>)>>> = Arc::new(Mutex::new(Vec::new()));
    let mut handles = Vec::new();
    for t in 0..nthreads {
        let ctx = ctx.clone();
        let picks = picks.clone();
        let shared_bufs = shared_bufs.clone();
        let results = results.clone();
        let nops = rng.gen_range(1usize..4);
        let plan: Vec<(u32, usize)> = (0..nops).map(|_| (rng.gen_range(0u32..4), rng.gen_range(0..picks.len()))).collect();
        handles.push(shuttle::thread::spawn(move || {
            THREADS.fetch_add(1, Ordering::Relaxed);
            for (kind, p) in plan {
                let i = picks[p];
                match kind {
                    0 | 1 => {
                        // own copy of the text
                        let text = ctx.pool[i].1.clone();
                        let res = lex_and_check(&ctx, i, &text, "own copy");
                        if kind == 1 {
                            results.lock().unwrap().push((i, Arc::new(res)));
                        }
                    }
                    2 => {
                        // the shared buffer, possibly lexed by several threads at once
                        let buf = shared_bufs[p].clone();
                        if t % 2 == 0 {
                            let res = lex_and_check(&ctx, i, &buf, "shared buffer");
                            results.lock().unwrap().push((i, Arc::new(res)));
                        } else {
                            // published untouched: the first accessor calls on this result
                            // are made by whichever threads walk it (possibly at once)
                            install_budget(buf.len());
                            let res = lex_program(&*buf).expect("lex_program returned Err");
                            LEX_CALLS.fetch_add(1, Ordering::Relaxed);
                            results.lock().unwrap().push((i, Arc::new(res)));
                        }
                    }
                    _ => {
                        // walk a result another thread produced, through every accessor
                        let other = {
                            let g = results.lock().unwrap();
                            if g.is_empty() {
                                None
                            } else if p % 2 == 0 {
                                Some(g[g.len() - 1].clone())
                            } else {
                                Some(g[(t + p) % g.len()].clone())
                            }
                        };
                        if let Some((j, res)) = other {
                            SHARED_WALKS.fetch_add(1, Ordering::Relaxed);
                            let variant = ((t + p) % 4) as u32;
                            let key = format!("R:{}", dump::hash_result_v(&ctx.pool[j].1, &res, &mut || {}, variant).hex());
                            assert!(
                                key == ctx.pool[j].2,
                                "C19 mismatch (walking a shared result) on source {}: expected {} got {key}",
                                ctx.pool[j].0,
                                ctx.pool[j].2
                            );
                        }
                    }
                }
            }
            #[cfg(sas_lexer_verif)]
            sas_lexer::verif::set_callback(None);
        }));
    }
    for h in handles {
        h.join().unwrap();
    }
}

fn arg(args: &HashMap<String, String>, k: &str, d: &str) -> String {
    args.get(k).cloned().unwrap_or_else(|| d.to_string())
}

fn main() {
    let mut it = std::env::args().skip(1);
    let cmd = it.next().unwrap_or_default();
    let mut args = HashMap::new();
    while let Some(a) = it.next() {
        if let Some(k) = a.strip_prefix("--") {
            args.insert(k.to_string(), it.next().unwrap_or_default());
        }
    }
    if cmd != "run" && cmd != "replay" {
        eprintln!("usage: c19shuttle run|replay --ref F --seed S --iterations N --scheduler random|pct ...");
        std::process::exit(2);
    }
    let tier = if arg(&args, "tier", "quick") == "thorough" { catalogue::Tier::Thorough } else { catalogue::Tier::Quick };
    let cat = catalogue::load(std::path::Path::new(&arg(&args, "catalogue", "/verif/catalogue")), tier).unwrap_or_else(|e| {
        eprintln!("c19shuttle: harness error: {e}");
        std::process::exit(2)
    });
    let refs_text = std::fs::read_to_string(arg(&args, "ref", "")).unwrap_or_else(|e| {
        eprintln!("c19shuttle: harness error: --ref: {e}");
        std::process::exit(2)
    });
    let mut refs = HashMap::new();
    for l in refs_text.lines() {
        if let Some((id, key)) = l.split_once('\t') {
            let key = String::from_utf8(util::unesc(key.split('\t').next().unwrap_or("")).unwrap_or_default()).unwrap_or_default();
            refs.insert(id.to_string(), key);
        }
    }
    // a fixed, seed-independent subset of the catalogue: short sources of every class
    let mut pool = Vec::new();
    let mut at = 0usize;
    for (_, n) in &cat.classes {
        let take = (*n).min(400);
        let step = (*n / take.max(1)).max(1);
        for k in (0..*n).step_by(step).take(take) {
            let s = &cat.sources[at + k];
            // short sources, plus the few-KB "medium" class (ids M..)
            // ... and the 33-90 KB "large" class (ids G..): size thresholds, pools of big vectors
            // ... and the three > 1 MiB sources that are one huge token each (cheap to lex):
            // anything that treats calls on very large sources specially
            let huge_cheap = matches!(s.id.as_str(), "L02" | "L11" | "L12");
            if s.text.len() <= 200 || (s.id.starts_with('M') && s.text.len() <= 20_000) || s.id.starts_with('G') || huge_cheap {
                if let Some(key) = refs.get(&s.id) {
                    if key.starts_with("R:") {
                        pool.push((s.id.clone(), s.text.clone(), key.clone()));
                    }
                }
            }
        }
        at += n;
    }
    if pool.is_empty() {
        eprintln!("c19shuttle: harness error: empty source pool");
        std::process::exit(2);
    }
    let wordy: Vec<usize> = pool
        .iter()
        .enumerate()
        .filter(|(_, (_, text, _))| {
            text.len() <= 2000 && {
                let mut words: Vec<String> = text
                    .split(|c: char| !(c.is_ascii_alphanumeric() || c == '_'))
                    .filter(|w| !w.is_empty() && w.len() <= 8 && w.as_bytes()[0].is_ascii_alphabetic())
                    .map(|w| w.to_ascii_uppercase())
                    .collect();
                words.sort();
                words.dedup();
                words.len() >= 8
            }
        })
        .map(|(i, _)| i)
        .collect();
    let gated_permille: u32 = arg(&args, "gated-permille", "50").parse().unwrap_or(50);
    let n_wordy = wordy.len();
    let ctx = std::sync::Arc::new(Ctx { pool, wordy, gated_permille });
    let seed: u64 = arg(&args, "seed", "1").parse().unwrap_or(1);
    let iterations: usize = arg(&args, "iterations", "1000").parse().unwrap_or(1000);
    let sched = arg(&args, "scheduler", "random");
    let schedule_dir = arg(&args, "schedule-dir", "/verif/replays/shuttle");
    let _ = std::fs::create_dir_all(&schedule_dir);
    let mut cfg = Config::new();
    cfg.failure_persistence = FailurePersistence::File(Some(std::path::PathBuf::from(&schedule_dir)));
    // a (legal) spin loop must not count as a failure: give up the iteration silently
    cfg.max_steps = MaxSteps::ContinueAfter(1_000_000);
    cfg.silence_warnings = true;
    cfg.stack_size = 0x40000;
    let t0 = std::time::Instant::now();
    let c2 = ctx.clone();
    let result = std::panic::catch_unwind(std::panic::AssertUnwindSafe(move || {
        if let Some(depth) = sched.strip_prefix("pct") {
            let depth: usize = depth.trim_start_matches(':').parse().unwrap_or(3);
            let s = PctScheduler::new_from_seed(seed, depth, iterations);
            Runner::new(s, cfg).run(move || scenario(&c2));
        } else {
            let s = RandomScheduler::new_from_seed(seed, iterations);
            Runner::new(s, cfg).run(move || scenario(&c2));
        }
    }));
    let wall = t0.elapsed().as_secs_f64();
    let mut j = util::Json::obj();
    j.set("iterations", util::Json::u(iterations as u64));
    j.set("seed", util::Json::u(seed));
    j.set("scheduler", util::Json::s(&arg(&args, "scheduler", "random")));
    j.set("pool", util::Json::u(ctx.pool.len() as u64));
    j.set("wordy_pool", util::Json::u(n_wordy as u64));
    j.set("gated_permille", util::Json::u(u64::from(gated_permille)));
    j.set("lex_calls", util::Json::u(LEX_CALLS.load(Ordering::Relaxed)));
    j.set("shared_walks", util::Json::u(SHARED_WALKS.load(Ordering::Relaxed)));
    j.set("threads", util::Json::u(THREADS.load(Ordering::Relaxed)));
    j.set("gated_churns", util::Json::u(GATED_CHURNS.load(Ordering::Relaxed)));
    j.set("wall_s", util::Json::Num(wall));
    j.set("failed", util::Json::Bool(result.is_err()));
    if let Err(e) = &result {
        let msg = e.downcast_ref::<String>().cloned().or_else(|| e.downcast_ref::<&str>().map(|s| (*s).to_string())).unwrap_or_else(|| "<non-string panic>".into());
        j.set("failure", util::Json::s(&msg));
    }
    let line = j.to_string_compact();
    if let Some(out) = args.get("out") {
        let _ = std::fs::write(out, &line);
    }
    println!("{line}");
    if result.is_err() {
        println!("SHUTTLE-FAILURE seed={seed} iterations={iterations} scheduler={}", arg(&args, "scheduler", "random"));
        std::process::exit(1);
    }
}
