//! Stand-ins, built on shuttle's primitives, for the `std::sync` types shuttle does not
//! model (`OnceLock`, `LazyLock`), so that a rewritten copy of the lexer that uses them still
//! builds and every access is a scheduling point.

use shuttle::sync::Once;
use std::cell::UnsafeCell;
use std::fmt;
use std::ops::Deref;

pub struct OnceLock<T> {
    once: Once,
    val: UnsafeCell<Option<T>>,
}

// SAFETY: the value is written exactly once, inside `Once::call_once`, and only read afterwards
unsafe impl<T: Send + Sync> Sync for OnceLock<T> {}
unsafe impl<T: Send> Send for OnceLock<T> {}

impl<T> OnceLock<T> {
    pub const fn new() -> Self {
        OnceLock { once: Once::new(), val: UnsafeCell::new(None) }
    }
    pub fn get(&self) -> Option<&T> {
        if self.once.is_completed() {
            // SAFETY: completed => written, never written again
            unsafe { (*self.val.get()).as_ref() }
        } else {
            None
        }
    }
    pub fn get_or_init<F: FnOnce() -> T>(&self, f: F) -> &T {
        self.once.call_once(|| {
            // SAFETY: call_once runs this at most once and excludes readers until done
            unsafe { *self.val.get() = Some(f()) };
        });
        self.get().expect("OnceLock initialised")
    }
    pub fn set(&self, value: T) -> Result<(), T> {
        let mut slot = Some(value);
        self.once.call_once(|| {
            // SAFETY: as above
            unsafe { *self.val.get() = slot.take() };
        });
        match slot {
            None => Ok(()),
            Some(v) => Err(v),
        }
    }
    pub fn get_mut(&mut self) -> Option<&mut T> {
        self.val.get_mut().as_mut()
    }
    pub fn into_inner(self) -> Option<T> {
        self.val.into_inner()
    }
}

impl<T> Default for OnceLock<T> {
    fn default() -> Self {
        Self::new()
    }
}

impl<T: fmt::Debug> fmt::Debug for OnceLock<T> {
    fn fmt(&self, f: &mut fmt::Formatter<'_>) -> fmt::Result {
        f.debug_tuple("OnceLock").field(&self.get()).finish()
    }
}

pub struct LazyLock<T, F = fn() -> T> {
    cell: OnceLock<T>,
    init: UnsafeCell<Option<F>>,
}

// SAFETY: `init` is only touched inside the `Once`
unsafe impl<T: Send + Sync, F: Send> Sync for LazyLock<T, F> {}

impl<T, F: FnOnce() -> T> LazyLock<T, F> {
    pub const fn new(f: F) -> Self {
        LazyLock { cell: OnceLock::new(), init: UnsafeCell::new(Some(f)) }
    }
    pub fn force(this: &Self) -> &T {
        this.cell.get_or_init(|| {
            // SAFETY: runs at most once, under the Once
            let f = unsafe { (*this.init.get()).take() }.expect("LazyLock initialiser");
            f()
        })
    }
}

impl<T, F: FnOnce() -> T> Deref for LazyLock<T, F> {
    type Target = T;
    fn deref(&self) -> &T {
        LazyLock::force(self)
    }
}
