//! Second engine for C19 (DESIGN.md 4.8): a fixed concurrent scenario executed under
//! Miri's seeded scheduler (`-Zmiri-many-seeds`, preemption at basic-block granularity)
//! and its data-race / undefined-behaviour detectors. Also runs natively.
//!
//! 4 threads lex overlapping sets of sources at the same time, one call per thread is
//! killed half-way through the hook callback and caught (as the CLI's catch_unwind does),
//! results are shared through `Arc` and walked through every accessor by other threads
//! while lexing continues. Every dump must equal the dump computed alone on the main
//! thread before anything else ran.

use sas_lexer::{lex_program, LexResult, Payload};
use std::panic::{catch_unwind, AssertUnwindSafe};
use std::sync::{Arc, Mutex};

const SOURCES: &[&str] = &[
    "%let a=%eval(1+2);",
    "%m(a=1, b /*c*/ = 'x''y', %n(z) =2) x;",
    "data a; x='it''s'; y=\"q&v.\"; run;",
    "%m (1) %m b",
    "datalines;\n1 2\nab;c\n;\nx=1;",
    "%do i=1 %to 3; %put &&v&i; %end;",
    "a='4142'x; b=1.5e3; c=0ffx; d=18446744073709551616;",
    "%if &a eq 1 %then %do; *c; %end; %else %str(%'a%);",
    "\u{feff}é='ü' /* ж */; %macro m(p=1)/des='d'; &p %mend;",
    ";;;;;;;;;;;;;;;;",
    "%l: %goto l; %x: y",
];

fn dump(src: &str, r: &LexResult) -> String {
    use std::fmt::Write;
    let mut s = String::new();
    let b = &r.buffer;
    for (t, info) in b.iter_tokens_infos() {
        let _ = write!(
            s,
            "{} {} {} {} {} {} ",
            t.get(),
            info.channel() as u8,
            info.token_type() as u16,
            info.byte_offset().get(),
            info.start().get(),
            info.line()
        );
        match info.payload() {
            Payload::None => s.push('-'),
            Payload::Integer(i) => {
                let _ = write!(s, "i{i}");
            }
            Payload::Float(f) => {
                let _ = write!(s, "f{:x}", f.to_bits());
            }
            Payload::StringLiteral(a, z) => {
                let _ = write!(s, "s{a}:{z}:{:?}", b.get_string_literal(a, z));
            }
        }
        let _ = write!(
            s,
            " {:?} {:?} {:?} {:?} {:?} {:?} {:?}",
            b.get_token_end(t).map(|v| v.get()),
            b.get_token_end_byte_offset(t).map(|v| v.get()),
            b.get_token_end_line(t),
            b.get_token_start_column(t),
            b.get_token_end_column(t),
            b.get_token_raw_text(t, &src),
            b.get_token_resolved_text(t, &src),
        );
        s.push('\n');
    }
    for rt in b.into_resolved_token_vec() {
        let _ = writeln!(
            s,
            "r {} {} {} {} {} {} {} {}",
            rt.token_index, rt.start, rt.stop, rt.line, rt.column, rt.end_line, rt.end_column, rt.token_type as u16
        );
    }
    let _ = writeln!(s, "lit {:?} lines {}", b.string_literals_buffer(), b.line_count());
    for e in &r.errors {
        let _ = writeln!(
            s,
            "e {} {} {} {} {} {:?}",
            e.error_kind() as u16,
            e.at_byte_offset(),
            e.at_char_offset(),
            e.on_line(),
            e.at_column(),
            e.last_token().map(|t| t.get())
        );
    }
    s
}

struct Crash;

#[cfg(sas_lexer_verif)]
fn lex_and_crash(src: &str, at: u32) {
    use sas_lexer::verif;
    let mut n = 0u32;
    verif::set_callback(Some(Box::new(move |_ev| {
        n += 1;
        if n == at {
            std::panic::panic_any(Crash);
        }
    })));
    let r = catch_unwind(AssertUnwindSafe(|| lex_program(&src).map(|_| ())));
    verif::set_callback(None);
    if let Err(e) = r {
        assert!(e.is::<Crash>(), "unexpected panic in a crashed call");
    }
}

#[cfg(not(sas_lexer_verif))]
fn lex_and_crash(src: &str, _at: u32) {
    let _ = catch_unwind(AssertUnwindSafe(|| lex_program(&src).map(|_| ())));
}

fn main() {
    std::panic::set_hook(Box::new(|info| {
        if !info.payload().is::<Crash>() {
            eprintln!("panic: {info}");
        }
    }));
    let nthreads = 4usize;
    // reference: alone, on the main thread, before anything else
    let reference: Vec<String> = SOURCES
        .iter()
        .map(|s| dump(s, &lex_program(s).expect("lex")))
        .collect();
    let reference = Arc::new(reference);
    let shared: Arc<Mutex<Vec<(usize, Arc<LexResult>)>>> = Arc::new(Mutex::new(Vec::new()));
    // one shared source buffer lexed by all threads at the same address
    let shared_src: Arc<String> = Arc::new(SOURCES[1].to_string());
    let mut handles = Vec::new();
    for t in 0..nthreads {
        let reference = reference.clone();
        let shared = shared.clone();
        let shared_src = shared_src.clone();
        handles.push(std::thread::spawn(move || {
            let mut bad = 0u32;
            for k in 0..3usize {
                let i = (t * 2 + k * 3) % SOURCES.len();
                let src = SOURCES[i].to_string();
                if k == 1 {
                    // a call that dies half-way, earlier in this thread's history
                    lex_and_crash(&src, 3 + t as u32 * 2);
                }
                let r = lex_program(&src).expect("lex");
                if dump(&src, &r) != reference[i] {
                    eprintln!("MISMATCH thread {t} source {i} (own call)");
                    bad += 1;
                }
                shared.lock().unwrap().push((i, Arc::new(r)));
                // the same buffer, concurrently, on every thread
                let r2 = lex_program(&*shared_src).expect("lex");
                if dump(&shared_src, &r2) != reference[1] {
                    eprintln!("MISMATCH thread {t} shared source buffer");
                    bad += 1;
                }
                // walk somebody else's result while others are lexing
                let other = {
                    let g = shared.lock().unwrap();
                    g.get((t + k) % g.len()).cloned()
                };
                if let Some((j, res)) = other {
                    if dump(SOURCES[j], &res) != reference[j] {
                        eprintln!("MISMATCH thread {t} reading shared result of source {j}");
                        bad += 1;
                    }
                }
            }
            bad
        }));
    }
    let bad: u32 = handles.into_iter().map(|h| h.join().expect("thread")).sum();
    if bad > 0 {
        eprintln!("c19miri: {bad} mismatches");
        std::process::exit(1);
    }
    println!("c19miri ok: {} threads, {} sources", nthreads, SOURCES.len());
}
