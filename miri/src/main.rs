//! Second engine for C19 (DESIGN.md 4.8): a fixed concurrent scenario executed under
//! Miri's seeded scheduler (`-Zmiri-many-seeds`, preemption at basic-block granularity)
//! and its data-race / undefined-behaviour detectors. Also runs natively.
//!
//! 4 threads lex overlapping sets of sources at the same time, one call per thread is
//! killed half-way through the hook callback and caught (as the CLI's catch_unwind does),
//! results are shared through `Arc` and walked through every accessor by other threads
//! while lexing continues. Every dump must equal the dump computed alone on the main
//! thread before anything else ran.

use sas_lexer::{lex_program, LexResult, Payload};
use std::panic::{catch_unwind, AssertUnwindSafe};
use std::sync::{Arc, Mutex};

const SOURCES: &[&str] = &[
    "%let a=%eval(1+2);",
    "%m(a=1, b /*c*/ ='x''y') x;",
    "x='it''s';\ny=\"q&v.\";",
    "%m (1) %m b",
    "cards;\n1\n;\nx=1;",
    "a='41'x; b=1.5e3; c=0ffx;",
    "\u{feff}é='ü'; %l: %x: y",
    "%str(%'a%);;;;;;",
];

/// Cheap order-sensitive hash of everything the result exposes (formatting is far too
/// slow under Miri).
struct H(u64);
impl H {
    fn u(&mut self, v: u64) {
        self.0 = (self.0 ^ v).wrapping_mul(0x0000_0100_0000_01B3).rotate_left(23) ^ 0x9E37_79B9;
    }
    fn s(&mut self, v: &str) {
        self.u(v.len() as u64);
        for b in v.bytes() {
            self.u(u64::from(b));
        }
    }
    fn r<T>(&mut self, v: Result<T, sas_lexer::error::ErrorKind>, f: impl FnOnce(T) -> u64) {
        match v {
            Ok(x) => self.u(f(x)),
            Err(e) => self.u(0xFFFF_0000 | e as u64),
        }
    }
}

fn dump(src: &str, r: &LexResult) -> u64 {
    let mut h = H(0xCBF2_9CE4_8422_2325);
    let b = &r.buffer;
    for (t, info) in b.iter_tokens_infos() {
        h.u(u64::from(t.get()));
        h.u(info.channel() as u64);
        h.u(info.token_type() as u64);
        h.u(u64::from(info.byte_offset().get()));
        h.u(u64::from(info.start().get()));
        h.u(u64::from(info.line()));
        match info.payload() {
            Payload::None => h.u(0),
            Payload::Integer(i) => h.u(i ^ 1),
            Payload::Float(f) => h.u(f.to_bits() ^ 2),
            Payload::StringLiteral(a, z) => {
                h.u(u64::from(a) << 32 | u64::from(z));
                h.r(b.get_string_literal(a, z), |s| s.len() as u64);
            }
        }
        h.r(b.get_token_end(t), |v| u64::from(v.get()));
        h.r(b.get_token_end_byte_offset(t), |v| u64::from(v.get()));
        h.r(b.get_token_end_line(t), u64::from);
        h.r(b.get_token_start_column(t), u64::from);
        h.r(b.get_token_end_column(t), u64::from);
        h.r(b.get_token_raw_text(t, &src), |v| v.map_or(0, |x| x.len() as u64 + 1));
        match b.get_token_resolved_text(t, &src) {
            Ok(Some(x)) => h.s(x),
            Ok(None) => h.u(7),
            Err(e) => h.u(e as u64),
        }
    }
    for rt in b.into_resolved_token_vec() {
        h.u(u64::from(rt.token_index));
        h.u(u64::from(rt.start));
        h.u(u64::from(rt.stop));
        h.u(u64::from(rt.line));
        h.u(u64::from(rt.column));
        h.u(u64::from(rt.end_line));
        h.u(u64::from(rt.end_column));
        h.u(rt.token_type as u64);
    }
    h.s(b.string_literals_buffer());
    h.u(u64::from(b.line_count()));
    for e in &r.errors {
        h.u(e.error_kind() as u64);
        h.u(u64::from(e.at_byte_offset()));
        h.u(u64::from(e.at_char_offset()));
        h.u(u64::from(e.on_line()));
        h.u(u64::from(e.at_column()));
        h.u(e.last_token().map_or(u64::MAX, |t| u64::from(t.get())));
    }
    h.0
}

struct Crash;

#[cfg(sas_lexer_verif)]
fn lex_and_crash(src: &str, at: u32) {
    use sas_lexer::verif;
    let mut n = 0u32;
    verif::set_callback(Some(Box::new(move |_ev| {
        n += 1;
        if n == at {
            std::panic::panic_any(Crash);
        }
    })));
    let r = catch_unwind(AssertUnwindSafe(|| lex_program(&src).map(|_| ())));
    verif::set_callback(None);
    if let Err(e) = r {
        assert!(e.is::<Crash>(), "unexpected panic in a crashed call");
    }
}

#[cfg(not(sas_lexer_verif))]
fn lex_and_crash(src: &str, _at: u32) {
    let _ = catch_unwind(AssertUnwindSafe(|| lex_program(&src).map(|_| ())));
}

fn main() {
    std::panic::set_hook(Box::new(|info| {
        if !info.payload().is::<Crash>() {
            eprintln!("panic: {info}");
        }
    }));
    let nthreads = 4usize;
    // reference: alone, on the main thread, before anything else
    let reference: Vec<u64> = SOURCES
        .iter()
        .map(|s| dump(s, &lex_program(s).expect("lex")))
        .collect();
    let reference = Arc::new(reference);
    let shared: Arc<Mutex<Vec<(usize, Arc<LexResult>)>>> = Arc::new(Mutex::new(Vec::new()));
    // one shared source buffer lexed by all threads at the same address
    let shared_src: Arc<String> = Arc::new(SOURCES[1].to_string());
    let mut handles = Vec::new();
    for t in 0..nthreads {
        let reference = reference.clone();
        let shared = shared.clone();
        let shared_src = shared_src.clone();
        handles.push(std::thread::spawn(move || {
            let mut bad = 0u32;
            for k in 0..2usize {
                let i = (t * 2 + k * 3) % SOURCES.len();
                let src = SOURCES[i].to_string();
                if k == 1 {
                    // a call that dies half-way, earlier in this thread's history
                    lex_and_crash(&src, 3 + t as u32 * 2);
                }
                let r = lex_program(&src).expect("lex");
                if dump(&src, &r) != reference[i] {
                    eprintln!("MISMATCH thread {t} source {i} (own call)");
                    bad += 1;
                }
                shared.lock().unwrap().push((i, Arc::new(r)));
                // the same buffer, concurrently, on every thread
                let r2 = lex_program(&*shared_src).expect("lex");
                if dump(&shared_src, &r2) != reference[1] {
                    eprintln!("MISMATCH thread {t} shared source buffer");
                    bad += 1;
                }
                // walk somebody else's result while others are lexing
                let other = {
                    let g = shared.lock().unwrap();
                    g.get((t + k) % g.len()).cloned()
                };
                if let Some((j, res)) = other {
                    if dump(SOURCES[j], &res) != reference[j] {
                        eprintln!("MISMATCH thread {t} reading shared result of source {j}");
                        bad += 1;
                    }
                }
            }
            bad
        }));
    }
    let mut bad: u32 = handles.into_iter().map(|h| h.join().expect("thread")).sum();
    // phase 2: every thread walks the SAME multi-line results at the same time, starting
    // at different tokens (results are used from other threads than the one that made them)
    let multi: Vec<(usize, Arc<LexResult>)> = [2usize, 4]
        .iter()
        .map(|&i| (i, Arc::new(lex_program(&SOURCES[i]).expect("lex"))))
        .collect();
    let multi = Arc::new(multi);
    let mut handles = Vec::new();
    for t in 0..nthreads {
        let multi = multi.clone();
        let reference = reference.clone();
        handles.push(std::thread::spawn(move || {
            let mut bad = 0u32;
            for round in 0..2 {
                let (i, res) = &multi[(t + round) % multi.len()];
                // per-token accessors from a thread-specific starting token
                let n = res.buffer.token_count();
                let mut seen = 0u64;
                for k in 0..n {
                    let idx = (k + t as u32 * 3) % n;
                    let tok = res.buffer.iter_tokens().nth(idx as usize).expect("token");
                    let a = res.buffer.get_token_end_line(tok).expect("end line");
                    let c = res.buffer.get_token_end_column(tok).expect("end col");
                    let b = res.buffer.get_token_start_line(tok).expect("line");
                    if a < b {
                        eprintln!("MISMATCH thread {t}: token {idx} ends on line {a} before it starts on {b}");
                        bad += 1;
                    }
                    seen += u64::from(a) + u64::from(c);
                }
                let _ = seen;
                if dump(SOURCES[*i], res) != reference[*i] {
                    eprintln!("MISMATCH thread {t} walking shared multi-line result {i}");
                    bad += 1;
                }
            }
            bad
        }));
    }
    bad += handles.into_iter().map(|h| h.join().expect("thread")).sum::<u32>();
    if bad > 0 {
        eprintln!("c19miri: {bad} mismatches");
        std::process::exit(1);
    }
    println!("c19miri ok: {} threads, {} sources", nthreads, SOURCES.len());
}
