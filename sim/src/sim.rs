//! The deterministic simulator: scripted clients on real OS threads, a single baton that
//! decides who runs, fault injection through the lexer's hook events, and the oracle.
//!
//! A run is a pure function of (scenario, tree, build): all choices are drawn from one
//! PRNG that only the baton holder touches, or read from an explicit recorded schedule.

use crate::alloc;
use crate::outcome::{outcome_of_result_v, run_lex_v, BudgetExceeded, InjectedCrash, Outcome};
use crate::reference::budget_for;
use crate::util::{Hasher, Json, Rng, H128};
use sas_lexer::verif::{self, Event, Knobs};
use sas_lexer::LexResult;
use std::cell::RefCell;
use std::collections::HashMap;
use std::rc::Rc;
use std::sync::{Arc, Condvar, Mutex};
use std::thread::JoinHandle;
use std::time::{Duration, Instant};

// ---------------------------------------------------------------- scenario

#[derive(Clone, Debug, PartialEq)]
pub struct SrcEntry {
    pub id: String,
    pub text: String,
    /// `Outcome::key()` of the clean-room reference for this text in this build.
    pub expect: String,
}

#[derive(Clone, Copy, Debug, PartialEq, Eq)]
pub enum Strategy {
    Random { quantum: u32 },
    Pct { depth: u32 },
    Alternate,
    RunToCompletion,
    Starved,
}

#[derive(Clone, Copy, Debug, PartialEq, Eq)]
pub enum Placement {
    Exact,
    /// String with spare capacity holding junk bytes after the text.
    Slack { extra: u16, junk: u8 },
    /// Sub-slice of a larger buffer: `pre` filler bytes before, junk text after.
    Sub { pre: u8, junk: u8 },
    /// The one buffer of this source that all clients of the run share (same address
    /// in every client, possibly lexed by several of them at the same time).
    Shared,
    /// The text lies across an address that is a multiple of 4 GiB (hence of every smaller
    /// power of two): `permille` of its bytes are below the line. Junk text follows it.
    Boundary { permille: u16, junk: u8 },
}

#[derive(Clone, Copy, Debug, PartialEq, Eq)]
pub enum Crash {
    /// at the n-th hook event of the call (1-based)
    AtEvent(u32),
    /// at the n-th main-loop event that has a live checkpoint
    CheckpointLive(u32),
    /// at the first main-loop event with mode depth >= d
    ModeDepthGe(u32),
    /// at the first AddToken with the vector at capacity
    AtCapacity,
    /// at the first event after a Rollback
    AfterRollback,
    /// at the first event after Finalize
    InFinalize,
    /// at the n-th AddStrLit
    AtStrLit(u32),
}

#[derive(Clone, Debug, PartialEq)]
pub struct LexOp {
    pub src: usize,
    pub placement: Placement,
    pub knobs: Knobs,
    /// call-local hook event indices (1-based) at which the buffer is asked to shrink to fit
    pub shrink_at: Vec<u32>,
    pub crash: Option<Crash>,
    pub keep: bool,
    /// order in which the accessors are called the first time the result is walked
    /// (dump variant 0 token-major, 1 accessor-major, 2 backwards, 3 bulk view first)
    pub walk: u8,
}

#[derive(Clone, Debug, PartialEq)]
pub enum Op {
    Lex(LexOp),
    Share { slot: u8 },
    ReadShared { slot: u8 },
    Migrate,
    DropLocal,
    DropShared { slot: u8 },
    /// Walk the kept result, clone it, drop the original, walk the clone (a clone must not
    /// depend on the original staying alive, nor on which accessors were called before).
    CloneDropWalk,
}

#[derive(Clone, Debug, PartialEq)]
pub struct Scenario {
    pub seed: u64,
    pub strategy: Strategy,
    pub junk: Option<u8>,
    pub sources: Vec<SrcEntry>,
    pub clients: Vec<Vec<Op>>,
    /// explicit schedule: at global yield number `seq` hand the baton to `client`
    pub schedule: Option<Vec<(u64, u32)>>,
    /// how the client threads are made: 0 named "client-N", default stack; 1 unnamed;
    /// 2 named "main" with an 8 MiB stack (what a process's main thread looks like); 3 1 MiB stack
    pub thread_style: u8,
}

/// Thread builder for a client, according to the scenario's thread style.
pub fn client_thread_builder(style: u8, me: usize) -> std::thread::Builder {
    let b = std::thread::Builder::new();
    match style {
        1 => b,
        2 => b.name("main".into()).stack_size(8 << 20),
        3 => b.name(format!("client-{me}")).stack_size(1 << 20),
        _ => b.name(format!("client-{me}")),
    }
}

pub const SHARED_SLOTS: usize = 4;
const JUNK_TAILS: &[&str] = &[
    "\"x", "*/", ";", "'", "%mend;", "\u{feff}", ")", "\u{e9}", "4", "x", "=1", ".5e3", "&a",
    "%a(", "\n", "/*",
];
const FILLER: &[u8] = b"/*\"'(%;&a=1\n)*/x";

/// The same text in a particular piece of memory.
pub struct Placed {
    buf: Arc<String>,
    from: usize,
    to: usize,
    /// text copied into a mapped region instead (Placement::Boundary)
    region: Option<(Region, usize)>,
}

impl AsRef<str> for Placed {
    fn as_ref(&self) -> &str {
        if let Some((r, start)) = &self.region {
            // SAFETY: `place` copied `to` bytes of valid UTF-8 to `start`, inside the mapping,
            // which this value owns until it is dropped
            #[allow(unsafe_code)]
            unsafe {
                return std::str::from_utf8_unchecked(std::slice::from_raw_parts((r.line - REGION_HALF + *start) as *const u8, self.to));
            }
        }
        &self.buf[self.from..self.to]
    }
}

impl Placed {
    pub fn straddles_4gib(&self) -> bool {
        self.region.is_some()
    }
}

impl Drop for Placed {
    fn drop(&mut self) {
        if let Some((r, _)) = self.region.take() {
            REGIONS.lock().unwrap_or_else(|e| e.into_inner()).free.push(r);
        }
    }
}

/// 1 MiB below and 1 MiB above an address that is a multiple of 4 GiB.
const REGION_HALF: usize = 1 << 20;

#[derive(Clone, Copy, Debug)]
pub struct Region {
    /// the multiple of 4 GiB in the middle of the mapping
    line: usize,
}

struct Regions {
    free: Vec<Region>,
    next_k: usize,
    failed: bool,
}

static REGIONS: Mutex<Regions> = Mutex::new(Regions { free: Vec::new(), next_k: 0x11, failed: false });

#[cfg(all(target_os = "linux", target_pointer_width = "64"))]
fn map_region(k: usize) -> Option<Region> {
    extern "C" {
        fn mmap(addr: *mut u8, len: usize, prot: i32, flags: i32, fd: i32, off: i64) -> *mut u8;
    }
    const PROT_RW: i32 = 1 | 2;
    const MAP_PRIVATE: i32 = 2;
    const MAP_ANONYMOUS: i32 = 0x20;
    const MAP_FIXED_NOREPLACE: i32 = 0x10_0000;
    let line = k << 32;
    let want = (line - REGION_HALF) as *mut u8;
    // SAFETY: a fresh anonymous mapping at an address nothing else uses (NOREPLACE)
    #[allow(unsafe_code)]
    let got = unsafe { mmap(want, 2 * REGION_HALF, PROT_RW, MAP_PRIVATE | MAP_ANONYMOUS | MAP_FIXED_NOREPLACE, -1, 0) };
    if got == want {
        Some(Region { line })
    } else {
        None
    }
}

#[cfg(not(all(target_os = "linux", target_pointer_width = "64")))]
fn map_region(_k: usize) -> Option<Region> {
    None
}

fn take_region() -> Option<Region> {
    let mut g = REGIONS.lock().unwrap_or_else(|e| e.into_inner());
    if let Some(r) = g.free.pop() {
        return Some(r);
    }
    if g.failed {
        return None;
    }
    // a few attempts at successive multiples of 4 GiB from 68 GiB upwards
    for _ in 0..64 {
        let k = g.next_k;
        g.next_k += 1;
        if let Some(r) = map_region(k) {
            return Some(r);
        }
    }
    g.failed = true;
    None
}

pub fn place(text: &str, p: Placement, shared: Option<&Arc<String>>) -> Placed {
    match p {
        Placement::Shared => match shared {
            Some(b) => Placed { from: 0, to: b.len(), buf: b.clone(), region: None },
            None => place(text, Placement::Exact, None),
        },
        Placement::Exact => {
            let mut buf = String::with_capacity(text.len());
            buf.push_str(text);
            Placed { from: 0, to: buf.len(), buf: Arc::new(buf), region: None }
        }
        Placement::Slack { extra, junk } => {
            let tail = JUNK_TAILS[junk as usize % JUNK_TAILS.len()];
            let mut buf = String::with_capacity(text.len() + extra as usize + tail.len());
            buf.push_str(text);
            // leave junk in the spare capacity right after the text
            buf.push_str(tail);
            buf.truncate(text.len());
            Placed { from: 0, to: buf.len(), buf: Arc::new(buf), region: None }
        }
        Placement::Sub { pre, junk } => {
            let tail = JUNK_TAILS[junk as usize % JUNK_TAILS.len()];
            let pre = pre as usize % 17;
            let mut buf = String::with_capacity(pre + text.len() + tail.len() * 2);
            for k in 0..pre {
                buf.push(FILLER[k % FILLER.len()] as char);
            }
            buf.push_str(text);
            buf.push_str(tail);
            buf.push_str(tail);
            Placed { from: pre, to: pre + text.len(), buf: Arc::new(buf), region: None }
        }
        Placement::Boundary { permille, junk } => {
            let tail = JUNK_TAILS[junk as usize % JUNK_TAILS.len()];
            let n = text.len();
            if n < 2 || n + 2 * tail.len() + 16 > REGION_HALF {
                return place(text, Placement::Sub { pre: (permille % 17) as u8, junk }, None);
            }
            let Some(r) = take_region() else {
                return place(text, Placement::Sub { pre: (permille % 17) as u8, junk }, None);
            };
            let below = (n * (permille as usize % 1001) / 1000).clamp(1, n - 1);
            let start = REGION_HALF - below;
            // SAFETY: start + n + 2 * tail.len() < 2 * REGION_HALF, inside the mapping `r`,
            // which no other Placed uses until this one is dropped
            #[allow(unsafe_code)]
            unsafe {
                let base = (r.line - REGION_HALF) as *mut u8;
                if start >= 16 {
                    std::ptr::copy_nonoverlapping(FILLER.as_ptr(), base.add(start - 16), 16);
                }
                std::ptr::copy_nonoverlapping(text.as_ptr(), base.add(start), n);
                std::ptr::copy_nonoverlapping(tail.as_ptr(), base.add(start + n), tail.len());
                std::ptr::copy_nonoverlapping(tail.as_ptr(), base.add(start + n + tail.len()), tail.len());
            }
            Placed { from: 0, to: n, buf: Arc::new(String::new()), region: Some((r, start)) }
        }
    }
}

// ---------------------------------------------------------------- results of a run

#[derive(Clone, Debug, PartialEq)]
pub struct Violation {
    pub client: usize,
    pub op: usize,
    /// "lex" | "read-shared" | "stall"
    pub what: &'static str,
    pub src: usize,
    pub expected: String,
    pub got: String,
    pub detail: String,
}

impl Violation {
    /// Violation class used by the minimiser: same op kind, same pair of outcome kinds.
    pub fn class(&self) -> String {
        format!(
            "{}:{}->{}",
            self.what,
            self.expected.chars().next().unwrap_or('?'),
            self.got.chars().next().unwrap_or('?')
        )
    }
}

#[derive(Clone, Debug, Default)]
pub struct Stats {
    pub hook_events: u64,
    pub yields: u64,
    pub switches: u64,
    pub switches_inside_lex: u64,
    pub lex_ops: u64,
    pub lex_completed: u64,
    pub lex_overlapped: u64,
    pub read_shared: u64,
    pub read_concurrent_with_lex: u64,
    pub crashes_fired: u64,
    pub crash_checkpoint_live: u64,
    pub crash_in_finalize: u64,
    pub crash_at_capacity: u64,
    pub crash_after_rollback: u64,
    pub shrinks_fired: u64,
    pub at_capacity_pushes: u64,
    pub knob_ops: u64,
    pub placement_ops: u64,
    pub boundary_placements: u64,
    pub migrations: u64,
    pub drops: u64,
    pub shares: u64,
    pub junk_runs: u64,
    pub rollbacks: u64,
    pub rollbacks_without_checkpoint: u64,
    pub checkpoints: u64,
    pub insert_tokens: u64,
    pub budget_exceeded: u64,
    pub lex_after_crash_same_thread: u64,
    pub clone_walks: u64,
    pub max_mode_depth: u64,
    pub max_steps_per_byte_x100: u64,
}

impl Stats {
    pub fn add(&mut self, o: &Stats) {
        macro_rules! acc { ($($f:ident),*) => { $( self.$f += o.$f; )* } }
        acc!(
            hook_events, yields, switches, switches_inside_lex, lex_ops, lex_completed,
            lex_overlapped, read_shared, read_concurrent_with_lex, crashes_fired,
            crash_checkpoint_live, crash_in_finalize, crash_at_capacity, crash_after_rollback,
            shrinks_fired, at_capacity_pushes, knob_ops, placement_ops, boundary_placements, migrations, drops,
            shares, junk_runs, rollbacks, rollbacks_without_checkpoint, checkpoints,
            insert_tokens, budget_exceeded, lex_after_crash_same_thread, clone_walks
        );
        self.max_mode_depth = self.max_mode_depth.max(o.max_mode_depth);
        self.max_steps_per_byte_x100 = self.max_steps_per_byte_x100.max(o.max_steps_per_byte_x100);
    }
    pub fn to_json(&self) -> Json {
        let mut j = Json::obj();
        macro_rules! put { ($($f:ident),*) => { $( j.set(stringify!($f), Json::u(self.$f)); )* } }
        put!(
            hook_events, yields, switches, switches_inside_lex, lex_ops, lex_completed,
            lex_overlapped, read_shared, read_concurrent_with_lex, crashes_fired,
            crash_checkpoint_live, crash_in_finalize, crash_at_capacity, crash_after_rollback,
            shrinks_fired, at_capacity_pushes, knob_ops, placement_ops, boundary_placements, migrations, drops,
            shares, junk_runs, rollbacks, rollbacks_without_checkpoint, checkpoints,
            insert_tokens, budget_exceeded, lex_after_crash_same_thread, clone_walks, max_mode_depth,
            max_steps_per_byte_x100
        );
        j
    }
    pub fn from_json(j: &Json) -> Stats {
        let mut s = Stats::default();
        macro_rules! get { ($($f:ident),*) => { $( s.$f = j.get(stringify!($f)).and_then(Json::as_u64).unwrap_or(0); )* } }
        get!(
            hook_events, yields, switches, switches_inside_lex, lex_ops, lex_completed,
            lex_overlapped, read_shared, read_concurrent_with_lex, crashes_fired,
            crash_checkpoint_live, crash_in_finalize, crash_at_capacity, crash_after_rollback,
            shrinks_fired, at_capacity_pushes, knob_ops, placement_ops, boundary_placements, migrations, drops,
            shares, junk_runs, rollbacks, rollbacks_without_checkpoint, checkpoints,
            insert_tokens, budget_exceeded, lex_after_crash_same_thread, clone_walks, max_mode_depth,
            max_steps_per_byte_x100
        );
        s
    }
}

#[derive(Clone, Debug)]
pub struct RunResult {
    /// hash of the global event trace (seq, client, event)
    pub trace: H128,
    /// hash of the switch sequence plus fired faults ("schedule signature")
    pub signature: H128,
    /// (client, op index, outcome key) for every executed Lex / ReadShared
    pub outcomes: Vec<(usize, usize, String)>,
    /// ops that had a crash planned: where (and whether) it fires depends on the hook event
    /// stream, which a correct tree may emit differently per build, so these are left out of
    /// the cross-build / cross-process outcome hash (they are still checked in-process)
    pub crash_planned: Vec<(usize, usize)>,
    pub violations: Vec<Violation>,
    pub stats: Stats,
    /// switches actually taken, usable as an explicit schedule
    pub recorded: Vec<(u64, u32)>,
    pub harness_error: Option<String>,
    /// the run could not be scheduled to the end (see the stall watchdog); no verdict
    pub inconclusive: Option<String>,
}

impl RunResult {
    pub fn outcomes_hash(&self) -> H128 {
        let mut h = Hasher::new();
        let mut v = self.outcomes.clone();
        v.sort();
        for (c, o, k) in &v {
            if self.crash_planned.contains(&(*c, *o)) {
                continue;
            }
            h.u64(*c as u64);
            h.u64(*o as u64);
            h.bytes(k.as_bytes());
        }
        h.finish()
    }
    pub fn nontrivial(&self) -> bool {
        self.stats.switches_inside_lex > 0
            || self.stats.crashes_fired > 0
            || self.stats.shrinks_fired > 0
            || self.stats.migrations > 0
            || self.stats.read_concurrent_with_lex > 0
    }
}

// ---------------------------------------------------------------- simulator state

struct SharedRes {
    src: usize,
    text: String,
    res: LexResult,
}

struct State {
    current: usize,
    started: bool,
    done: Vec<bool>,
    in_lex: Vec<bool>,
    rng: Rng,
    strategy: Strategy,
    prio: Vec<i64>,
    change_points: Vec<u64>,
    next_low_prio: i64,
    explicit: Option<HashMap<u64, u32>>,
    seq: u64,
    trace: Hasher,
    sig: Hasher,
    recorded: Vec<(u64, u32)>,
    stats: Stats,
    outcomes: Vec<(usize, usize, String)>,
    crash_planned: Vec<(usize, usize)>,
    violations: Vec<Violation>,
    abort: bool,
    slots: Vec<Option<Arc<SharedRes>>>,
    handles: Vec<Option<JoinHandle<()>>>,
    remaining: usize,
    /// OS thread id of the thread currently running each client (for the stall watchdog)
    tids: Vec<u32>,
}

struct Shared {
    m: Mutex<State>,
    /// mirror of `State::current`, so a client that has just handed the baton on can spin
    /// briefly for its return instead of paying a futex round trip (who runs is still decided
    /// only under the lock, by the baton holder)
    cur: std::sync::atomic::AtomicUsize,
    cvs: Vec<Condvar>,
    main_cv: Condvar,
    scenario: Scenario,
    /// one shared, immutable buffer per source (Placement::Shared)
    shared_bufs: Vec<Arc<String>>,
}

#[derive(Clone, Copy)]
enum YieldKind {
    Hook(Event),
    OpBoundary,
    Read,
    Exit,
}

fn event_code(ev: &Event) -> (u64, u64, u64) {
    match *ev {
        Event::LexStart { len } => (1, u64::from(len), 0),
        Event::MainLoop { remaining, mode_depth, checkpoint_live } => {
            (2, u64::from(remaining), u64::from(mode_depth) * 2 + u64::from(checkpoint_live))
        }
        Event::AddToken { count, at_capacity } => (3, u64::from(count), u64::from(at_capacity)),
        Event::InsertToken { at, count } => (4, u64::from(at), u64::from(count)),
        Event::AddLine { count } => (5, u64::from(count), 0),
        Event::AddStrLit { len, at } => (6, u64::from(len), u64::from(at)),
        Event::Checkpoint { was_live } => (7, u64::from(was_live), 0),
        Event::ClearCheckpoint { was_live } => (8, u64::from(was_live), 0),
        Event::Rollback { had_checkpoint } => (9, u64::from(had_checkpoint), 0),
        Event::Finalize { mode_depth } => (10, u64::from(mode_depth), 0),
        Event::LexEnd { tokens, errors } => (11, u64::from(tokens), u64::from(errors)),
    }
}

impl State {
    fn runnable_other_than(&self, me: usize) -> Vec<usize> {
        (0..self.done.len()).filter(|&c| c != me && !self.done[c]).collect()
    }

    fn random_runnable(&mut self, include: Option<usize>, me: usize) -> usize {
        let mut v = self.runnable_other_than(me);
        if let Some(m) = include {
            if !self.done[m] {
                v.push(m);
                v.sort_unstable();
            }
        }
        if v.is_empty() {
            return me;
        }
        v[self.rng.below(v.len() as u64) as usize]
    }

    /// Decides who holds the baton after this yield. `me_runnable` is false when the
    /// caller is exiting.
    fn pick_next(&mut self, me: usize, kind: YieldKind, me_runnable: bool) -> usize {
        let n = self.done.len();
        if let Some(ex) = &self.explicit {
            let want = ex.get(&self.seq).map(|&c| c as usize);
            if let Some(c) = want {
                if c < n && !self.done[c] && (c != me || me_runnable) {
                    return c;
                }
            }
            if me_runnable {
                return me;
            }
            // exiting: lowest runnable
            return (0..n).find(|&c| c != me && !self.done[c]).unwrap_or(me);
        }
        let others = self.runnable_other_than(me);
        if others.is_empty() {
            return me;
        }
        if !me_runnable {
            return match self.strategy {
                Strategy::Pct { .. } => *others.iter().max_by_key(|&&c| self.prio[c]).unwrap(),
                Strategy::Alternate => {
                    (1..=n).map(|d| (me + d) % n).find(|c| !self.done[*c] && *c != me).unwrap()
                }
                Strategy::Starved => {
                    let non0: Vec<usize> = others.iter().copied().filter(|&c| c != 0).collect();
                    if non0.is_empty() {
                        0
                    } else {
                        non0[self.rng.below(non0.len() as u64) as usize]
                    }
                }
                _ => others[self.rng.below(others.len() as u64) as usize],
            };
        }
        let boundary = matches!(kind, YieldKind::OpBoundary);
        match self.strategy {
            Strategy::Random { quantum } => {
                if boundary || self.rng.below(u64::from(quantum.max(1))) == 0 {
                    self.random_runnable(Some(me), me)
                } else {
                    me
                }
            }
            Strategy::Alternate => (1..=n).map(|d| (me + d) % n).find(|c| !self.done[*c]).unwrap_or(me),
            Strategy::RunToCompletion => {
                if boundary {
                    self.random_runnable(Some(me), me)
                } else {
                    me
                }
            }
            Strategy::Pct { .. } => {
                if self.change_points.contains(&self.seq) {
                    self.prio[me] = self.next_low_prio;
                    self.next_low_prio -= 1;
                }
                (0..n).filter(|&c| !self.done[c]).max_by_key(|&c| self.prio[c]).unwrap_or(me)
            }
            Strategy::Starved => {
                if me == 0 {
                    // the starved client gets exactly one event at a time
                    let non0: Vec<usize> = others.iter().copied().filter(|&c| c != 0).collect();
                    non0[self.rng.below(non0.len() as u64) as usize]
                } else if boundary && !self.done[0] && self.rng.chance(1, 2) {
                    0
                } else if boundary {
                    self.random_runnable(Some(me), me)
                } else if self.rng.below(16) == 0 {
                    let non0: Vec<usize> = others.iter().copied().filter(|&c| c != 0).collect();
                    if non0.is_empty() {
                        me
                    } else {
                        non0[self.rng.below(non0.len() as u64) as usize]
                    }
                } else {
                    me
                }
            }
        }
    }
}

impl Shared {
    /// The only place where control moves between clients.
    fn yield_point(&self, me: usize, kind: YieldKind) {
        let mut st = self.m.lock().unwrap();
        debug_assert_eq!(st.current, me, "yield by a client that does not hold the baton");
        st.seq += 1;
        st.stats.yields += 1;
        let seq = st.seq;
        let (code, a, b) = match kind {
            YieldKind::Hook(ev) => {
                st.stats.hook_events += 1;
                event_code(&ev)
            }
            YieldKind::OpBoundary => (100, 0, 0),
            YieldKind::Read => (101, 0, 0),
            YieldKind::Exit => (102, 0, 0),
        };
        st.trace.u64(seq);
        st.trace.u64(me as u64);
        st.trace.u64(code);
        st.trace.u64(a);
        st.trace.u64(b);
        let exiting = matches!(kind, YieldKind::Exit);
        if exiting {
            st.done[me] = true;
            st.remaining -= 1;
        }
        let next = st.pick_next(me, kind, !exiting);
        if next != me {
            st.stats.switches += 1;
            if st.in_lex[me] {
                st.stats.switches_inside_lex += 1;
            }
            st.sig.u64(seq);
            st.sig.u64(me as u64);
            st.sig.u64(next as u64);
            st.sig.u64(code);
            st.recorded.push((seq, next as u32));
            st.current = next;
            self.cur.store(next, std::sync::atomic::Ordering::Release);
            self.cvs[next].notify_one();
        }
        if exiting {
            if st.remaining == 0 {
                self.main_cv.notify_all();
            }
            return;
        }
        if st.current == me {
            return;
        }
        drop(st);
        for _ in 0..spin_iterations() {
            if self.cur.load(std::sync::atomic::Ordering::Acquire) == me {
                return;
            }
            std::hint::spin_loop();
        }
        let mut st = self.m.lock().unwrap();
        while st.current != me {
            st = self.cvs[me].wait(st).unwrap();
        }
    }

    fn wait_for_baton(&self, me: usize) {
        let mut st = self.m.lock().unwrap();
        while !(st.started && st.current == me) {
            st = self.cvs[me].wait(st).unwrap();
        }
    }
}

// ---------------------------------------------------------------- client threads

#[derive(Default)]
struct OpCtx {
    active: bool,
    ev_idx: u32,
    mainloops: u64,
    budget: u64,
    crash: Option<Crash>,
    cp_live_seen: u32,
    strlit_seen: u32,
    after_rollback: bool,
    in_finalize: bool,
    shrink_at: Vec<u32>,
    // probes
    crashed_on_this_thread: bool,
}

struct Local {
    src: usize,
    text: String,
    res: LexResult,
}

fn install_client_callback(shared: &Arc<Shared>, me: usize, ctx: &Rc<RefCell<OpCtx>>) {
    let shared = shared.clone();
    let ctx = ctx.clone();
    verif::set_callback(Some(Box::new(move |ev: &Event| {
        let mut fire_crash = false;
        {
            let mut c = ctx.borrow_mut();
            if !c.active {
                return;
            }
            c.ev_idx += 1;
            let mut probe = Stats::default();
            match *ev {
                Event::MainLoop { mode_depth, checkpoint_live, .. } => {
                    c.mainloops += 1;
                    probe.max_mode_depth = u64::from(mode_depth);
                    if c.mainloops > c.budget {
                        c.active = false;
                        drop(c);
                        shared.m.lock().unwrap().stats.budget_exceeded += 1;
                        std::panic::panic_any(BudgetExceeded);
                    }
                    if checkpoint_live {
                        c.cp_live_seen += 1;
                        if let Some(Crash::CheckpointLive(n)) = c.crash {
                            fire_crash |= c.cp_live_seen == n;
                        }
                    }
                    if let Some(Crash::ModeDepthGe(d)) = c.crash {
                        fire_crash |= mode_depth >= d;
                    }
                }
                Event::AddToken { at_capacity, .. } => {
                    if at_capacity {
                        probe.at_capacity_pushes = 1;
                        fire_crash |= c.crash == Some(Crash::AtCapacity);
                    }
                }
                Event::AddStrLit { .. } => {
                    c.strlit_seen += 1;
                    if let Some(Crash::AtStrLit(n)) = c.crash {
                        fire_crash |= c.strlit_seen == n;
                    }
                }
                Event::Rollback { had_checkpoint } => {
                    probe.rollbacks = 1;
                    if !had_checkpoint {
                        probe.rollbacks_without_checkpoint = 1;
                    }
                    c.after_rollback = true;
                }
                Event::Checkpoint { .. } => probe.checkpoints = 1,
                Event::InsertToken { .. } => probe.insert_tokens = 1,
                Event::Finalize { .. } => c.in_finalize = true,
                _ => {}
            }
            if !matches!(ev, Event::Rollback { .. }) && c.after_rollback {
                fire_crash |= c.crash == Some(Crash::AfterRollback);
                c.after_rollback = false;
            }
            if c.in_finalize && !matches!(ev, Event::Finalize { .. }) {
                fire_crash |= c.crash == Some(Crash::InFinalize);
            }
            if let Some(Crash::AtEvent(n)) = c.crash {
                fire_crash |= c.ev_idx == n;
            }
            let shrink = c.shrink_at.contains(&c.ev_idx);
            if shrink {
                verif::request_shrink();
                probe.shrinks_fired = 1;
            }
            if fire_crash {
                probe.crashes_fired = 1;
                match c.crash {
                    Some(Crash::CheckpointLive(_)) => probe.crash_checkpoint_live = 1,
                    Some(Crash::InFinalize) => probe.crash_in_finalize = 1,
                    Some(Crash::AtCapacity) => probe.crash_at_capacity = 1,
                    Some(Crash::AfterRollback) => probe.crash_after_rollback = 1,
                    _ => {
                        if let Event::MainLoop { checkpoint_live: true, .. } = ev {
                            probe.crash_checkpoint_live = 1;
                        }
                    }
                }
                c.active = false;
                c.crashed_on_this_thread = true;
            }
            let mut st = shared.m.lock().unwrap();
            let keep_depth = st.stats.max_mode_depth.max(probe.max_mode_depth);
            probe.max_mode_depth = 0;
            st.stats.add(&probe);
            st.stats.max_mode_depth = keep_depth;
            if fire_crash {
                // a crash is a fault placement: part of the schedule signature
                let seq = st.seq;
                st.sig.u64(0xC4A5);
                st.sig.u64(seq);
                st.sig.u64(me as u64);
            }
            if shrink {
                let seq = st.seq;
                st.sig.u64(0x5421);
                st.sig.u64(seq);
            }
        }
        if fire_crash {
            // account the event in the trace, then die without handing the baton on
            let mut st = shared.m.lock().unwrap();
            st.seq += 1;
            let seq = st.seq;
            st.trace.u64(seq);
            st.trace.u64(me as u64);
            st.trace.u64(0xDEAD);
            drop(st);
            std::panic::panic_any(InjectedCrash);
        }
        shared.yield_point(me, YieldKind::Hook(*ev));
    })));
}

struct ClientState {
    me: usize,
    next_op: usize,
    local: Option<Local>,
    prev_thread: Option<JoinHandle<()>>,
}

fn client_main(shared: Arc<Shared>, mut cs: ClientState) {
    let me = cs.me;
    if let Some(h) = cs.prev_thread.take() {
        // migration: the previous OS thread of this client must be completely gone
        // (thread-local destructors included) before the script continues here
        let _ = h.join();
    } else {
        shared.wait_for_baton(me);
    }
    shared.m.lock().unwrap().tids[me] = os_tid();
    let ctx = Rc::new(RefCell::new(OpCtx::default()));
    install_client_callback(&shared, me, &ctx);
    let script = &shared.scenario.clients[me];
    while cs.next_op < script.len() {
        let op_idx = cs.next_op;
        cs.next_op += 1;
        if shared.m.lock().unwrap().abort {
            break;
        }
        match &script[op_idx] {
            Op::Lex(lex) => do_lex(&shared, me, op_idx, lex, &ctx, &mut cs),
            Op::Share { slot } => {
                if let Some(l) = cs.local.take() {
                    let mut st = shared.m.lock().unwrap();
                    st.stats.shares += 1;
                    st.slots[*slot as usize % SHARED_SLOTS] =
                        Some(Arc::new(SharedRes { src: l.src, text: l.text, res: l.res }));
                }
            }
            Op::ReadShared { slot } => do_read(&shared, me, op_idx, *slot),
            Op::DropLocal => {
                if cs.local.take().is_some() {
                    shared.m.lock().unwrap().stats.drops += 1;
                }
            }
            Op::CloneDropWalk => {
                if let Some(l) = cs.local.take() {
                    let entry = &shared.scenario.sources[l.src];
                    let variant = ((op_idx + me) % 4) as u32;
                    let ntok = l.res.buffer.token_count() as usize;
                    let half = ntok / 2;
                    let stop_half_way = (op_idx + me) % 2 == 0;
                    let first = if stop_half_way {
                        // a consumer that stops half-way, then hands a clone on
                        let r = std::panic::catch_unwind(std::panic::AssertUnwindSafe(|| {
                            crate::dump::partial_walk(&l.text, &l.res.buffer, half);
                        }));
                        if r.is_ok() { entry.expect.clone() } else { "P:partial walk panicked".to_string() }
                    } else {
                        outcome_of_result_v(&l.text, &l.res, &mut || {}, variant).key()
                    };
                    let copy = LexResult {
                        buffer: l.res.buffer.clone(),
                        errors: l.res.errors.clone(),
                        #[cfg(feature = "opti_stats")]
                        max_mode_stack_depth: l.res.max_mode_stack_depth,
                    };
                    drop(l.res);
                    // something else takes the freed blocks
                    let filler: Vec<u64> = vec![0x5A5A_5A5A_5A5A_5A5A; 64];
                    // the clone is walked from where the original stopped (or in another order)
                    let v2 = if stop_half_way { 16 + half as u32 } else { (variant + 1) % 4 };
                    let second = outcome_of_result_v(&l.text, &copy, &mut || {}, v2).key();
                    drop(filler);
                    let mut st = shared.m.lock().unwrap();
                    st.stats.drops += 1;
                    st.stats.clone_walks += 1;
                    for (which, key) in [("original", first), ("clone after the original was dropped", second)] {
                        st.outcomes.push((me, op_idx, key.clone()));
                        if key != entry.expect {
                            st.violations.push(Violation {
                                client: me,
                                op: op_idx,
                                what: "read-shared",
                                src: l.src,
                                expected: entry.expect.clone(),
                                got: key,
                                detail: format!("walking the {which}"),
                            });
                            st.abort = true;
                            break;
                        }
                    }
                }
            }
            Op::DropShared { slot } => {
                let mut st = shared.m.lock().unwrap();
                if st.slots[*slot as usize % SHARED_SLOTS].take().is_some() {
                    st.stats.drops += 1;
                }
            }
            Op::Migrate => {
                verif::set_callback(None);
                let mut st = shared.m.lock().unwrap();
                st.stats.migrations += 1;
                let seq = st.seq;
                st.sig.u64(0x316);
                st.sig.u64(seq);
                let my_handle = st.handles[me].take();
                let succ = ClientState {
                    me,
                    next_op: cs.next_op,
                    local: cs.local.take(),
                    prev_thread: my_handle,
                };
                let sh = shared.clone();
                let h = client_thread_builder(shared.scenario.thread_style, me)
                    .spawn(move || client_main(sh, succ))
                    .expect("spawn");
                st.handles[me] = Some(h);
                return;
            }
        }
        shared.yield_point(me, YieldKind::OpBoundary);
    }
    verif::set_callback(None);
    drop(cs.local.take());
    shared.yield_point(me, YieldKind::Exit);
}

fn do_lex(
    shared: &Arc<Shared>,
    me: usize,
    op_idx: usize,
    lex: &LexOp,
    ctx: &Rc<RefCell<OpCtx>>,
    cs: &mut ClientState,
) {
    let entry = &shared.scenario.sources[lex.src];
    let placed = place(&entry.text, lex.placement, shared.shared_bufs.get(lex.src));
    {
        let mut st = shared.m.lock().unwrap();
        st.stats.lex_ops += 1;
        if lex.knobs != Knobs::default() {
            st.stats.knob_ops += 1;
        }
        if lex.placement != Placement::Exact {
            st.stats.placement_ops += 1;
        }
        if placed.straddles_4gib() {
            st.stats.boundary_placements += 1;
        }
        if st.in_lex.iter().enumerate().any(|(c, &b)| b && c != me) {
            st.stats.lex_overlapped += 1;
        }
        st.in_lex[me] = true;
        let mut c = ctx.borrow_mut();
        if c.crashed_on_this_thread {
            st.stats.lex_after_crash_same_thread += 1;
        }
        let crashed = c.crashed_on_this_thread;
        *c = OpCtx {
            active: true,
            budget: budget_for(entry.text.len()),
            crash: lex.crash,
            shrink_at: lex.shrink_at.clone(),
            crashed_on_this_thread: crashed,
            ..OpCtx::default()
        };
    }
    verif::set_knobs(lex.knobs);
    let (outcome, res) = run_lex_v(&placed, &mut || {}, u32::from(lex.walk % 4));
    verif::set_knobs(Knobs::default());
    let steps = {
        let mut c = ctx.borrow_mut();
        c.active = false;
        c.mainloops
    };
    let key = outcome.key();
    let mut st = shared.m.lock().unwrap();
    st.in_lex[me] = false;
    if !entry.text.is_empty() {
        let r = steps * 100 / entry.text.len() as u64;
        st.stats.max_steps_per_byte_x100 = st.stats.max_steps_per_byte_x100.max(r);
    }
    st.outcomes.push((me, op_idx, key.clone()));
    if lex.crash.is_some() {
        st.crash_planned.push((me, op_idx));
    }
    let crashed = matches!(outcome, Outcome::Crash);
    if crashed {
        // legal only if a crash was planned for this call
        if lex.crash.is_none() {
            st.violations.push(Violation {
                client: me,
                op: op_idx,
                what: "lex",
                src: lex.src,
                expected: entry.expect.clone(),
                got: key,
                detail: "InjectedCrash without a planned crash (harness)".into(),
            });
            st.abort = true;
        }
    } else {
        st.stats.lex_completed += 1;
        if key != entry.expect {
            let detail = match &outcome {
                Outcome::Panicked { msg, file, line, .. } => {
                    format!("panicked: {} @ {}:{}", msg, file, line)
                }
                _ => String::new(),
            };
            st.violations.push(Violation {
                client: me,
                op: op_idx,
                what: "lex",
                src: lex.src,
                expected: entry.expect.clone(),
                got: key,
                detail,
            });
            st.abort = true;
        }
    }
    drop(st);
    if lex.keep {
        if let Some(res) = res {
            cs.local = Some(Local { src: lex.src, text: entry.text.clone(), res });
        }
    }
}

fn do_read(shared: &Arc<Shared>, me: usize, op_idx: usize, slot: u8) {
    let arc = {
        let mut st = shared.m.lock().unwrap();
        // the named slot, or else the first non-empty one
        let a = st.slots[slot as usize % SHARED_SLOTS]
            .clone()
            .or_else(|| st.slots.iter().flatten().next().cloned());
        if a.is_some() {
            st.stats.read_shared += 1;
        }
        a
    };
    let Some(arc) = arc else { return };
    let mut n = 0u32;
    let mut saw_lex = false;
    // the order in which the accessors are called varies from read to read
    let variant = ((op_idx + me) % 4) as u32;
    let outcome = {
        let mut tick = || {
            n += 1;
            if n % 4 == 0 {
                shared.yield_point(me, YieldKind::Read);
                if !saw_lex && shared.m.lock().unwrap().in_lex.iter().any(|&b| b) {
                    saw_lex = true;
                }
            }
        };
        if op_idx % 2 == 1 {
            // every other read walks a clone of the shared result
            let copy = LexResult {
                buffer: arc.res.buffer.clone(),
                errors: arc.res.errors.clone(),
                #[cfg(feature = "opti_stats")]
                max_mode_stack_depth: arc.res.max_mode_stack_depth,
            };
            outcome_of_result_v(&arc.text, &copy, &mut tick, variant)
        } else {
            outcome_of_result_v(&arc.text, &arc.res, &mut tick, variant)
        }
    };
    let key = outcome.key();
    let entry = &shared.scenario.sources[arc.src];
    let mut st = shared.m.lock().unwrap();
    if saw_lex {
        st.stats.read_concurrent_with_lex += 1;
    }
    st.outcomes.push((me, op_idx, key.clone()));
    if key != entry.expect {
        st.violations.push(Violation {
            client: me,
            op: op_idx,
            what: "read-shared",
            src: arc.src,
            expected: entry.expect.clone(),
            got: key,
            detail: String::new(),
        });
        st.abort = true;
    }
}

// ---------------------------------------------------------------- running a scenario

pub const STALL_LIMIT: Duration = Duration::from_secs(30);

/// OS thread id of the calling thread (Linux: /proc/thread-self -> "<pid>/task/<tid>").
fn os_tid() -> u32 {
    std::fs::read_link("/proc/thread-self")
        .ok()
        .and_then(|p| p.file_name().and_then(|f| f.to_str().and_then(|t| t.parse().ok())))
        .unwrap_or(0)
}

/// Scheduler state letter of an OS thread of this process ('R' running, 'S' sleeping ...).
fn os_thread_state(tid: u32) -> Option<char> {
    let stat = std::fs::read_to_string(format!("/proc/self/task/{tid}/stat")).ok()?;
    // "<tid> (<comm>) <state> ..."; comm may contain spaces and parentheses
    let rest = &stat[stat.rfind(')')? + 1..];
    rest.trim_start().chars().next()
}
const SPIN_ITERATIONS: u32 = 300;

fn spin_iterations() -> u32 {
    static N: std::sync::OnceLock<u32> = std::sync::OnceLock::new();
    *N.get_or_init(|| std::env::var("C19_SPIN").ok().and_then(|v| v.parse().ok()).unwrap_or(SPIN_ITERATIONS))
}

pub fn estimate_events(sc: &Scenario) -> u64 {
    let mut n = 0u64;
    for c in &sc.clients {
        for op in c {
            n += match op {
                Op::Lex(l) => 4 + 2 * sc.sources[l.src].text.len() as u64,
                Op::ReadShared { .. } => 8,
                _ => 1,
            };
        }
    }
    n.max(8)
}

pub fn run_scenario(sc: &Scenario) -> RunResult {
    let n = sc.clients.len();
    let mut rng = Rng::derive(sc.seed, 0x5C4ED);
    let mut prio: Vec<i64> = (0..n as i64).map(|i| 1000 + i).collect();
    // random permutation of initial priorities
    for i in (1..n).rev() {
        let j = rng.below(i as u64 + 1) as usize;
        prio.swap(i, j);
    }
    let mut change_points = Vec::new();
    if let Strategy::Pct { depth } = sc.strategy {
        let est = estimate_events(sc);
        for _ in 0..depth {
            change_points.push(1 + rng.below(est));
        }
    }
    let first = if let Some(ex) = &sc.schedule {
        ex.iter().find(|(s, _)| *s == 0).map_or(0, |(_, c)| *c as usize).min(n.saturating_sub(1))
    } else {
        match sc.strategy {
            Strategy::Pct { .. } => (0..n).max_by_key(|&c| prio[c]).unwrap_or(0),
            Strategy::Alternate => 0,
            Strategy::Starved if n > 1 => 1 + rng.below(n as u64 - 1) as usize,
            _ => rng.below(n.max(1) as u64) as usize,
        }
    };
    let mut stats = Stats::default();
    if sc.junk.is_some() {
        stats.junk_runs = 1;
    }
    let state = State {
        current: first,
        started: false,
        done: vec![false; n],
        in_lex: vec![false; n],
        rng,
        strategy: sc.strategy,
        prio,
        change_points,
        next_low_prio: 0,
        explicit: sc.schedule.as_ref().map(|v| v.iter().copied().collect()),
        seq: 0,
        trace: Hasher::new(),
        sig: Hasher::new(),
        recorded: vec![(0, first as u32)],
        stats,
        outcomes: Vec::new(),
        crash_planned: Vec::new(),
        violations: Vec::new(),
        abort: false,
        slots: vec![None; SHARED_SLOTS],
        handles: (0..n).map(|_| None).collect(),
        remaining: n,
        tids: vec![0; n],
    };
    let shared = Arc::new(Shared {
        m: Mutex::new(state),
        cur: std::sync::atomic::AtomicUsize::new(first),
        cvs: (0..n).map(|_| Condvar::new()).collect(),
        main_cv: Condvar::new(),
        scenario: sc.clone(),
        shared_bufs: sc
            .sources
            .iter()
            .map(|s| {
                let mut b = String::with_capacity(s.text.len());
                b.push_str(&s.text);
                Arc::new(b)
            })
            .collect(),
    });
    if n == 0 {
        let st = shared.m.lock().unwrap();
        return RunResult {
            trace: st.trace.finish(),
            signature: st.sig.finish(),
            outcomes: vec![],
            crash_planned: vec![],
            violations: vec![],
            stats: st.stats.clone(),
            recorded: vec![],
            harness_error: None,
            inconclusive: None,
        };
    }
    alloc::set_junk(sc.junk);
    {
        let mut st = shared.m.lock().unwrap();
        for me in 0..n {
            let sh = shared.clone();
            let cs = ClientState { me, next_op: 0, local: None, prev_thread: None };
            let h = client_thread_builder(sc.thread_style, me)
                .spawn(move || client_main(sh, cs))
                .expect("spawn");
            st.handles[me] = Some(h);
        }
        st.started = true;
        shared.cvs[first].notify_one();
    }
    // wait for completion with a stall watchdog
    let mut harness_error = None;
    let mut inconclusive: Option<String> = None;
    {
        let mut st = shared.m.lock().unwrap();
        let mut last_seq = st.seq;
        let mut last_change = Instant::now();
        while st.remaining > 0 {
            let (g, _) = shared.main_cv.wait_timeout(st, Duration::from_millis(200)).unwrap();
            st = g;
            if st.seq != last_seq {
                last_seq = st.seq;
                last_change = Instant::now();
            } else if last_change.elapsed() > STALL_LIMIT {
                let cur = st.current;
                // busy (state R over several samples) = a loop that reaches no hook: a hang of
                // the lexer. Sleeping = the holder waits for something a parked client holds
                // (a lock, a permit, a condition): the baton itself causes that, the lexer may
                // be perfectly fine, so the run is abandoned as inconclusive.
                let tid = st.tids[cur];
                let mut running = 0;
                for _ in 0..10 {
                    if os_thread_state(tid) == Some('R') {
                        running += 1;
                    }
                    std::thread::sleep(Duration::from_millis(20));
                }
                if st.in_lex[cur] && running < 8 {
                    inconclusive = Some(format!(
                        "client {cur} is blocked inside lex_program waiting for another, parked client (a lock or condition shared between calls); the baton cannot schedule that"
                    ));
                } else if st.in_lex[cur] {
                    // the baton holder is inside lex_program and reaches no hook: a hang
                    let (op, src) = (usize::MAX, usize::MAX);
                    st.violations.push(Violation {
                        client: cur,
                        op,
                        what: "stall",
                        src,
                        expected: String::new(),
                        got: "S".into(),
                        detail: format!("client {cur} made no progress for {STALL_LIMIT:?} inside lex_program"),
                    });
                } else {
                    harness_error = Some(format!("stall outside lex_program (client {cur})"));
                }
                break;
            }
        }
    }
    let stalled = {
        let st = shared.m.lock().unwrap();
        st.remaining > 0
    };
    if !stalled {
        loop {
            let h = {
                let mut st = shared.m.lock().unwrap();
                let mut found = None;
                for c in 0..n {
                    if let Some(h) = st.handles[c].take() {
                        found = Some(h);
                        break;
                    }
                }
                found
            };
            match h {
                Some(h) => {
                    if h.join().is_err() {
                        harness_error = Some("a client thread panicked outside catch_unwind".into());
                    }
                }
                None => break,
            }
        }
    }
    alloc::set_junk(None);
    let mut st = shared.m.lock().unwrap();
    st.slots.clear();
    RunResult {
        trace: st.trace.finish(),
        signature: st.sig.finish(),
        outcomes: std::mem::take(&mut st.outcomes),
        crash_planned: std::mem::take(&mut st.crash_planned),
        violations: std::mem::take(&mut st.violations),
        stats: st.stats.clone(),
        recorded: std::mem::take(&mut st.recorded),
        harness_error,
        inconclusive,
    }
}
