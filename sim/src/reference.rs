//! Clean-room reference: each source is lexed once on a fresh OS thread with default
//! knobs, exact-capacity placement, nothing else running, and only the step-budget
//! callback installed.

use crate::catalogue::Source;
use crate::outcome::{run_lex, BudgetExceeded, Outcome};
use sas_lexer::verif::{self, Event, Knobs};
use std::sync::mpsc;
use std::time::Duration;

pub fn budget_for(len: usize) -> u64 {
    64 * len as u64 + 4096
}

/// Installs a callback that only enforces the main-loop step budget.
pub fn install_budget_callback(len: usize) {
    let budget = budget_for(len);
    let mut steps = 0u64;
    verif::set_knobs(Knobs::default());
    verif::set_callback(Some(Box::new(move |ev: &Event| {
        if let Event::MainLoop { .. } = ev {
            steps += 1;
            if steps > budget {
                std::panic::panic_any(BudgetExceeded);
            }
        }
    })));
}

pub enum RefResult {
    Done(Outcome),
    /// No answer within the wall-clock limit (a loop that reaches no hook).
    Stalled,
}

pub const STALL_LIMIT: Duration = Duration::from_secs(20);

/// Lexes `text` in the clean room.
pub fn clean_room(text: &str) -> RefResult {
    let owned: String = {
        let mut s = String::with_capacity(text.len());
        s.push_str(text);
        s
    };
    let (tx, rx) = mpsc::channel();
    let h = std::thread::Builder::new()
        .name("clean-room".into())
        .spawn(move || {
            install_budget_callback(owned.len());
            let (o, res) = run_lex(&owned, &mut || {});
            drop(res);
            verif::set_callback(None);
            let _ = tx.send(o);
        })
        .expect("spawn");
    match rx.recv_timeout(STALL_LIMIT) {
        Ok(o) => {
            let _ = h.join();
            RefResult::Done(o)
        }
        Err(_) => RefResult::Stalled,
    }
}

pub fn line_for(src: &Source, r: &RefResult) -> String {
    match r {
        RefResult::Stalled => format!("{}\tS\tStalled\t0\t0\t", src.id),
        RefResult::Done(o) => {
            let (t, e) = match o {
                Outcome::Returned { tokens, errors, .. } => (*tokens, *errors),
                _ => (0, 0),
            };
            let detail = match o {
                Outcome::Panicked { msg, file, line, .. } => crate::util::esc(
                    format!("{} @ {}:{}", msg.lines().next().unwrap_or(""), crate::outcome::short_file(file), line).as_bytes(),
                ),
                _ => String::new(),
            };
            format!("{}\t{}\t{}\t{}\t{}\t{}", src.id, crate::util::esc(o.key().as_bytes()), o.kind(), t, e, detail)
        }
    }
}
