//! Seeded scenario generation (swarm style) and scenario (de)serialisation.

use crate::catalogue::Catalogue;
use crate::sim::{Crash, LexOp, Op, Placement, Scenario, SrcEntry, Strategy, SHARED_SLOTS};
use crate::util::{Json, Rng};
use sas_lexer::verif::Knobs;
use std::collections::HashMap;

/// Reference table: source id -> expected outcome key (for one build).
pub type RefTable = HashMap<String, String>;

pub struct GenCtx<'a> {
    pub cat: &'a Catalogue,
    pub refs: &'a RefTable,
    /// index ranges of the catalogue classes, so small classes are not drowned
    pub class_ranges: Vec<(usize, usize)>,
    /// source ids never used by the simulation (known build divergences)
    pub exclude: std::collections::HashSet<String>,
}

impl<'a> GenCtx<'a> {
    pub fn new(cat: &'a Catalogue, refs: &'a RefTable) -> GenCtx<'a> {
        let mut class_ranges = Vec::new();
        let mut at = 0;
        for (name, n) in &cat.classes {
            if *n > 0 && *name != "long" {
                // every class gets the same share of the picks, except the few-KB "medium"
                // class, which is expensive to interleave: 1/32 of a share
                let copies = if *name == "medium" || *name == "large" { 1 } else { 32 };
                for _ in 0..copies {
                    class_ranges.push((at, at + n));
                }
            }
            at += n;
        }
        GenCtx { cat, refs, class_ranges, exclude: std::collections::HashSet::new() }
    }

    fn pick_source(&self, rng: &mut Rng) -> usize {
        loop {
            let (a, b) = *rng.pick(&self.class_ranges);
            let i = a + rng.below((b - a) as u64) as usize;
            // sources above 32 KB are for the reference passes and sweeps only
            if !self.exclude.contains(&self.cat.sources[i].id) && self.cat.sources[i].text.len() <= 96 * 1024 {
                return i;
            }
        }
    }
}

fn pick_cap(rng: &mut Rng, text_len: usize, default_div: usize) -> Option<usize> {
    let default = (text_len / default_div).max(4);
    match rng.below(8) {
        0 => None,
        1 => Some(0),
        2 => Some(1),
        3 => Some(rng.below(8) as usize),
        4 => Some(default.saturating_sub(1)),
        5 => Some(default + 1 + rng.below(4) as usize),
        6 => Some(rng.below(text_len as u64 + 2) as usize),
        _ => Some(text_len + 8),
    }
}

/// Thread churn: client 0 stays on one OS thread, client 1 moves to a fresh OS thread after
/// every call (~70 thread creations and exits, with thread-local destructors, in one run).
fn generate_churn(seed: u64, g: &GenCtx, rng: &mut Rng) -> Scenario {
    let mut sources: Vec<SrcEntry> = Vec::new();
    let first = g.pick_source(rng);
    let n = g.cat.sources.len();
    for k in 0..4usize {
        let mut c = (first + k * 2).min(n - 1);
        if g.exclude.contains(&g.cat.sources[c].id) || g.cat.sources[c].text.len() > 400 {
            c = first;
        }
        let s = &g.cat.sources[c];
        sources.push(SrcEntry {
            id: s.id.clone(),
            text: s.text.clone(),
            expect: g.refs.get(&s.id).cloned().unwrap_or_else(|| "?".into()),
        });
    }
    let plain = |src: usize| {
        Op::Lex(LexOp {
            src,
            placement: Placement::Exact,
            knobs: Knobs::default(),
            shrink_at: vec![],
            crash: None,
            keep: false,
            walk: 0,
        })
    };
    let long_lived: Vec<Op> = (0..10).map(|k| plain(k % 4)).collect();
    let mut churner = Vec::new();
    for k in 0..70usize {
        churner.push(plain((k + 1) % 4));
        churner.push(Op::Migrate);
    }
    Scenario {
        seed,
        strategy: Strategy::Random { quantum: 64 },
        junk: None,
        sources,
        clients: vec![long_lived, churner],
        schedule: None,
        thread_style: (seed % 4) as u8,
    }
}

pub fn generate(seed: u64, g: &GenCtx) -> Scenario {
    let mut rng = Rng::derive(seed, 0x9E4);
    if rng.below(200) == 0 {
        return generate_churn(seed, g, &mut rng);
    }
    let n_clients = match rng.below(100) {
        0..=7 => 1,
        8..=42 => 2,
        43..=62 => 3,
        63..=77 => 4,
        78..=91 => rng.range(5, 8) as usize,
        _ => rng.range(9, 16) as usize,
    };
    let max_ops = match n_clients {
        1 => 8,
        2..=4 => 6,
        5..=8 => 4,
        _ => 3,
    };
    // swarm: each fault kind is on for about half of the runs
    let f_crash = rng.chance(1, 2);
    let f_migrate = rng.chance(1, 2);
    let f_cap = rng.chance(1, 2);
    let f_place = rng.chance(1, 2);
    let f_junk = rng.chance(1, 3);
    let f_share = rng.chance(1, 2);
    let f_drop = rng.chance(1, 2);
    let f_shrink = rng.chance(1, 2);
    let f_shared_buf = rng.chance(1, 4);
    let strategy = match rng.below(10) {
        0 | 1 => Strategy::Random { quantum: 1 },
        2 => Strategy::Random { quantum: 4 },
        3 => Strategy::Random { quantum: 16 },
        4 => Strategy::Random { quantum: 64 },
        5 | 6 => Strategy::Pct { depth: rng.range(1, 3) as u32 },
        7 => Strategy::Alternate,
        8 => Strategy::RunToCompletion,
        _ => Strategy::Starved,
    };
    // a small pool of sources shared by all clients (so that the same text is lexed in
    // different environments within one run), plus occasional one-off sources
    let pool_n = rng.range(1, 4) as usize;
    let mut sources: Vec<SrcEntry> = Vec::new();
    let mut index_of: HashMap<usize, usize> = HashMap::new();
    let mut intern = |cat_idx: usize, sources: &mut Vec<SrcEntry>| -> usize {
        *index_of.entry(cat_idx).or_insert_with(|| {
            let s = &g.cat.sources[cat_idx];
            sources.push(SrcEntry {
                id: s.id.clone(),
                text: s.text.clone(),
                expect: g.refs.get(&s.id).cloned().unwrap_or_else(|| "?".into()),
            });
            sources.len() - 1
        })
    };
    // after the first pick the others are often catalogue neighbours of it (prefixes /
    // variants of the same program), so that concurrent calls run the same code paths
    let first_cat = g.pick_source(&mut rng);
    let mut pool: Vec<usize> = vec![intern(first_cat, &mut sources)];
    for _ in 1..pool_n {
        let c = if rng.chance(1, 2) {
            let n = g.cat.sources.len();
            let cand = (first_cat + rng.below(17) as usize).saturating_sub(8).min(n - 1);
            if g.exclude.contains(&g.cat.sources[cand].id) { g.pick_source(&mut rng) } else { cand }
        } else {
            g.pick_source(&mut rng)
        };
        pool.push(intern(c, &mut sources));
    }

    let mut clients = Vec::new();
    for _ in 0..n_clients {
        let n_ops = rng.range(1, max_ops) as usize;
        let mut ops = Vec::new();
        let mut has_local = false;
        for _ in 0..n_ops {
            let roll = rng.below(100);
            let op = if roll < 60 {
                let src = if rng.chance(4, 5) {
                    *rng.pick(&pool)
                } else {
                    intern(g.pick_source(&mut rng), &mut sources)
                };
                let len = sources[src].text.len();
                let placement = if f_shared_buf && rng.chance(3, 4) {
                    Placement::Shared
                } else if f_place && rng.chance(2, 3) {
                    if rng.chance(1, 6) {
                        Placement::Boundary { permille: rng.below(1001) as u16, junk: rng.below(16) as u8 }
                    } else if rng.chance(1, 2) {
                        Placement::Slack { extra: rng.range(1, 64) as u16, junk: rng.below(16) as u8 }
                    } else {
                        Placement::Sub { pre: rng.below(17) as u8, junk: rng.below(16) as u8 }
                    }
                } else {
                    Placement::Exact
                };
                let knobs = if f_cap && rng.chance(2, 3) {
                    Knobs {
                        token_cap: pick_cap(&mut rng, len, 3),
                        line_cap: pick_cap(&mut rng, len, 20),
                        str_lit_cap: pick_cap(&mut rng, len, 20),
                        mode_stack_cap: *rng.pick(&[None, Some(0), Some(1), Some(2), Some(3), Some(8), Some(41)]),
                    }
                } else {
                    Knobs::default()
                };
                let mut shrink_at = Vec::new();
                if f_shrink && rng.chance(1, 2) {
                    for _ in 0..rng.range(1, 3) {
                        shrink_at.push(rng.range(1, 3 * len as u64 + 3) as u32);
                    }
                    shrink_at.sort_unstable();
                    shrink_at.dedup();
                }
                let crash = if f_crash && rng.chance(1, 3) {
                    Some(match rng.below(9) {
                        0 | 1 => Crash::AtEvent(rng.range(1, 3 * len as u64 + 3) as u32),
                        2 | 3 => Crash::CheckpointLive(rng.range(1, 3) as u32),
                        4 => Crash::ModeDepthGe(rng.range(2, 6) as u32),
                        5 => Crash::AtCapacity,
                        6 => Crash::AfterRollback,
                        7 => Crash::InFinalize,
                        _ => Crash::AtStrLit(rng.range(1, 2) as u32),
                    })
                } else {
                    None
                };
                let keep = rng.chance(1, 2);
                has_local |= keep && crash.is_none();
                let walk = if rng.chance(1, 3) { rng.below(4) as u8 } else { 0 };
                Op::Lex(LexOp { src, placement, knobs, shrink_at, crash, keep, walk })
            } else if roll < 72 && f_share && has_local {
                has_local = false;
                Op::Share { slot: rng.below(SHARED_SLOTS as u64) as u8 }
            } else if roll < 87 && f_share {
                Op::ReadShared { slot: rng.below(SHARED_SLOTS as u64) as u8 }
            } else if roll < 91 && f_migrate {
                Op::Migrate
            } else if roll < 96 && f_drop {
                if has_local && rng.chance(1, 2) {
                    has_local = false;
                    Op::CloneDropWalk
                } else if rng.chance(1, 2) {
                    has_local = false;
                    Op::DropLocal
                } else {
                    Op::DropShared { slot: rng.below(SHARED_SLOTS as u64) as u8 }
                }
            } else {
                let src = *rng.pick(&pool);
                Op::Lex(LexOp {
                    src,
                    placement: Placement::Exact,
                    knobs: Knobs::default(),
                    shrink_at: vec![],
                    crash: None,
                    keep: true,
                    walk: 0,
                })
            };
            if let Op::Lex(l) = &op {
                has_local |= l.keep && l.crash.is_none();
            }
            ops.push(op);
        }
        clients.push(ops);
    }
    let big = sources.iter().any(|s| s.text.len() > 3000);
    let strategy = if big {
        match strategy {
            Strategy::Random { .. } | Strategy::Alternate | Strategy::Starved => Strategy::Random { quantum: 256 },
            s => s,
        }
    } else {
        strategy
    };
    Scenario {
        seed,
        strategy,
        junk: if f_junk { Some(0x40 | (rng.below(0x3f) as u8 + 1)) } else { None },
        sources,
        clients,
        schedule: None,
        thread_style: match rng.below(8) {
            0 => 1,
            1 => 2,
            2 => 3,
            _ => 0,
        },
    }
}

// ---------------------------------------------------------------- JSON

fn opt_usize(v: Option<usize>) -> Json {
    v.map_or(Json::Null, |x| Json::u(x as u64))
}

fn get_opt_usize(j: Option<&Json>) -> Option<usize> {
    j.and_then(Json::as_u64).map(|x| x as usize)
}

pub fn scenario_to_json(sc: &Scenario) -> Json {
    let mut j = Json::obj();
    j.set("seed", Json::u(sc.seed));
    j.set(
        "strategy",
        Json::s(&match sc.strategy {
            Strategy::Random { quantum } => format!("random:{quantum}"),
            Strategy::Pct { depth } => format!("pct:{depth}"),
            Strategy::Alternate => "alternate".into(),
            Strategy::RunToCompletion => "run-to-completion".into(),
            Strategy::Starved => "starved".into(),
        }),
    );
    j.set("heap_junk", sc.junk.map_or(Json::Null, |b| Json::u(u64::from(b))));
    j.set("thread_style", Json::u(u64::from(sc.thread_style)));
    j.set(
        "sources",
        Json::Arr(
            sc.sources
                .iter()
                .map(|s| {
                    let mut o = Json::obj();
                    o.set("id", Json::s(&s.id));
                    o.set("text", Json::s(&s.text));
                    o.set("expect", Json::s(&s.expect));
                    o
                })
                .collect(),
        ),
    );
    j.set(
        "clients",
        Json::Arr(
            sc.clients
                .iter()
                .map(|ops| Json::Arr(ops.iter().map(op_to_json).collect()))
                .collect(),
        ),
    );
    j.set(
        "schedule",
        sc.schedule.as_ref().map_or(Json::Null, |v| {
            Json::Arr(
                v.iter()
                    .map(|(s, c)| Json::Arr(vec![Json::u(*s), Json::u(u64::from(*c))]))
                    .collect(),
            )
        }),
    );
    j
}

fn op_to_json(op: &Op) -> Json {
    let mut o = Json::obj();
    match op {
        Op::Lex(l) => {
            o.set("op", Json::s("lex"));
            o.set("src", Json::u(l.src as u64));
            o.set(
                "placement",
                Json::s(&match l.placement {
                    Placement::Exact => "exact".to_string(),
                    Placement::Slack { extra, junk } => format!("slack:{extra}:{junk}"),
                    Placement::Sub { pre, junk } => format!("sub:{pre}:{junk}"),
                    Placement::Shared => "shared".to_string(),
                    Placement::Boundary { permille, junk } => format!("boundary:{permille}:{junk}"),
                }),
            );
            let mut k = Json::obj();
            k.set("token_cap", opt_usize(l.knobs.token_cap));
            k.set("line_cap", opt_usize(l.knobs.line_cap));
            k.set("str_lit_cap", opt_usize(l.knobs.str_lit_cap));
            k.set("mode_stack_cap", opt_usize(l.knobs.mode_stack_cap));
            o.set("knobs", k);
            o.set(
                "shrink_at",
                Json::Arr(l.shrink_at.iter().map(|x| Json::u(u64::from(*x))).collect()),
            );
            o.set(
                "crash",
                l.crash.map_or(Json::Null, |c| {
                    Json::s(&match c {
                        Crash::AtEvent(n) => format!("at-event:{n}"),
                        Crash::CheckpointLive(n) => format!("checkpoint-live:{n}"),
                        Crash::ModeDepthGe(n) => format!("mode-depth-ge:{n}"),
                        Crash::AtCapacity => "at-capacity:0".into(),
                        Crash::AfterRollback => "after-rollback:0".into(),
                        Crash::InFinalize => "in-finalize:0".into(),
                        Crash::AtStrLit(n) => format!("at-str-lit:{n}"),
                    })
                }),
            );
            o.set("keep", Json::Bool(l.keep));
            o.set("walk", Json::u(u64::from(l.walk)));
        }
        Op::Share { slot } => {
            o.set("op", Json::s("share"));
            o.set("slot", Json::u(u64::from(*slot)));
        }
        Op::ReadShared { slot } => {
            o.set("op", Json::s("read-shared"));
            o.set("slot", Json::u(u64::from(*slot)));
        }
        Op::Migrate => {
            o.set("op", Json::s("migrate"));
        }
        Op::DropLocal => {
            o.set("op", Json::s("drop-local"));
        }
        Op::CloneDropWalk => {
            o.set("op", Json::s("clone-drop-walk"));
        }
        Op::DropShared { slot } => {
            o.set("op", Json::s("drop-shared"));
            o.set("slot", Json::u(u64::from(*slot)));
        }
    }
    o
}

fn split2(s: &str) -> (String, Vec<u64>) {
    let mut it = s.split(':');
    let head = it.next().unwrap_or("").to_string();
    (head, it.filter_map(|x| x.parse().ok()).collect())
}

pub fn scenario_from_json(j: &Json) -> Result<Scenario, String> {
    let seed = j.get("seed").and_then(Json::as_u64).unwrap_or(0);
    let (sh, sa) = split2(j.get("strategy").and_then(Json::as_str).unwrap_or("alternate"));
    let strategy = match sh.as_str() {
        "random" => Strategy::Random { quantum: sa.first().copied().unwrap_or(1) as u32 },
        "pct" => Strategy::Pct { depth: sa.first().copied().unwrap_or(1) as u32 },
        "alternate" => Strategy::Alternate,
        "run-to-completion" => Strategy::RunToCompletion,
        "starved" => Strategy::Starved,
        x => return Err(format!("unknown strategy {x}")),
    };
    let junk = j.get("heap_junk").and_then(Json::as_u64).map(|b| b as u8);
    let mut sources = Vec::new();
    for s in j.get("sources").and_then(Json::as_arr).ok_or("no sources")? {
        sources.push(SrcEntry {
            id: s.get("id").and_then(Json::as_str).unwrap_or("?").to_string(),
            text: s.get("text").and_then(Json::as_str).ok_or("source without text")?.to_string(),
            expect: s.get("expect").and_then(Json::as_str).unwrap_or("?").to_string(),
        });
    }
    let mut clients = Vec::new();
    for c in j.get("clients").and_then(Json::as_arr).ok_or("no clients")? {
        let mut ops = Vec::new();
        for o in c.as_arr().ok_or("client not an array")? {
            let slot = o.get("slot").and_then(Json::as_u64).unwrap_or(0) as u8;
            let op = match o.get("op").and_then(Json::as_str).unwrap_or("") {
                "lex" => {
                    let src = o.get("src").and_then(Json::as_u64).ok_or("lex without src")? as usize;
                    if src >= sources.len() {
                        return Err("src out of range".into());
                    }
                    let (ph, pa) = split2(o.get("placement").and_then(Json::as_str).unwrap_or("exact"));
                    let placement = match ph.as_str() {
                        "slack" => Placement::Slack {
                            extra: pa.first().copied().unwrap_or(1) as u16,
                            junk: pa.get(1).copied().unwrap_or(0) as u8,
                        },
                        "shared" => Placement::Shared,
                        "boundary" => Placement::Boundary {
                            permille: pa.first().copied().unwrap_or(500) as u16,
                            junk: pa.get(1).copied().unwrap_or(0) as u8,
                        },
                        "sub" => Placement::Sub {
                            pre: pa.first().copied().unwrap_or(0) as u8,
                            junk: pa.get(1).copied().unwrap_or(0) as u8,
                        },
                        _ => Placement::Exact,
                    };
                    let k = o.get("knobs");
                    let knobs = Knobs {
                        token_cap: get_opt_usize(k.and_then(|k| k.get("token_cap"))),
                        line_cap: get_opt_usize(k.and_then(|k| k.get("line_cap"))),
                        str_lit_cap: get_opt_usize(k.and_then(|k| k.get("str_lit_cap"))),
                        mode_stack_cap: get_opt_usize(k.and_then(|k| k.get("mode_stack_cap"))),
                    };
                    let shrink_at = o
                        .get("shrink_at")
                        .and_then(Json::as_arr)
                        .map(|a| a.iter().filter_map(Json::as_u64).map(|x| x as u32).collect())
                        .unwrap_or_default();
                    let crash = match o.get("crash").and_then(Json::as_str) {
                        None => None,
                        Some(s) => {
                            let (h, a) = split2(s);
                            let n = a.first().copied().unwrap_or(1) as u32;
                            Some(match h.as_str() {
                                "at-event" => Crash::AtEvent(n),
                                "checkpoint-live" => Crash::CheckpointLive(n),
                                "mode-depth-ge" => Crash::ModeDepthGe(n),
                                "at-capacity" => Crash::AtCapacity,
                                "after-rollback" => Crash::AfterRollback,
                                "in-finalize" => Crash::InFinalize,
                                "at-str-lit" => Crash::AtStrLit(n),
                                x => return Err(format!("unknown crash {x}")),
                            })
                        }
                    };
                    Op::Lex(LexOp {
                        src,
                        placement,
                        knobs,
                        shrink_at,
                        crash,
                        keep: o.get("keep").and_then(Json::as_bool).unwrap_or(false),
                        walk: o.get("walk").and_then(Json::as_u64).unwrap_or(0) as u8,
                    })
                }
                "share" => Op::Share { slot },
                "read-shared" => Op::ReadShared { slot },
                "migrate" => Op::Migrate,
                "drop-local" => Op::DropLocal,
                "clone-drop-walk" => Op::CloneDropWalk,
                "drop-shared" => Op::DropShared { slot },
                x => return Err(format!("unknown op {x}")),
            };
            ops.push(op);
        }
        clients.push(ops);
    }
    let schedule = match j.get("schedule") {
        Some(Json::Arr(a)) => Some(
            a.iter()
                .filter_map(|e| {
                    let e = e.as_arr()?;
                    Some((e.first()?.as_u64()?, e.get(1)?.as_u64()? as u32))
                })
                .collect(),
        ),
        _ => None,
    };
    let thread_style = j.get("thread_style").and_then(Json::as_u64).unwrap_or(0) as u8;
    Ok(Scenario { seed, strategy, junk, sources, clients, schedule, thread_style })
}
