//! Harness-side allocator seam ("heap-junk" fault): when switched on, fresh blocks and
//! grown tails are filled with a seeded byte and freed blocks are scribbled, so that a
//! result depending on uninitialised or freed heap changes instead of reading zeros.

use std::alloc::{GlobalAlloc, Layout, System};
use std::sync::atomic::{AtomicBool, AtomicU64, AtomicU8, Ordering};

pub struct JunkAlloc;

static ON: AtomicBool = AtomicBool::new(false);
static BYTE: AtomicU8 = AtomicU8::new(0xA5);
pub static FILLED_BLOCKS: AtomicU64 = AtomicU64::new(0);

pub fn set_junk(v: Option<u8>) {
    match v {
        Some(b) => {
            BYTE.store(b, Ordering::SeqCst);
            ON.store(true, Ordering::SeqCst);
        }
        None => ON.store(false, Ordering::SeqCst),
    }
}

unsafe impl GlobalAlloc for JunkAlloc {
    unsafe fn alloc(&self, layout: Layout) -> *mut u8 {
        let p = System.alloc(layout);
        if !p.is_null() && ON.load(Ordering::Relaxed) {
            std::ptr::write_bytes(p, BYTE.load(Ordering::Relaxed), layout.size());
            FILLED_BLOCKS.fetch_add(1, Ordering::Relaxed);
        }
        p
    }
    unsafe fn alloc_zeroed(&self, layout: Layout) -> *mut u8 {
        System.alloc_zeroed(layout)
    }
    unsafe fn dealloc(&self, p: *mut u8, layout: Layout) {
        if ON.load(Ordering::Relaxed) {
            std::ptr::write_bytes(p, !BYTE.load(Ordering::Relaxed), layout.size());
        }
        System.dealloc(p, layout);
    }
    unsafe fn realloc(&self, p: *mut u8, layout: Layout, new_size: usize) -> *mut u8 {
        if ON.load(Ordering::Relaxed) {
            // always move, so stale pointers into the old block see scribbled memory
            let new_layout = Layout::from_size_align_unchecked(new_size, layout.align());
            let q = self.alloc(new_layout);
            if !q.is_null() {
                std::ptr::copy_nonoverlapping(p, q, layout.size().min(new_size));
                self.dealloc(p, layout);
            }
            q
        } else {
            System.realloc(p, layout, new_size)
        }
    }
}
