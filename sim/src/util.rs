//! PRNG, hashing, escaping and a tiny JSON reader/writer. No third-party code.

use std::collections::BTreeMap;
use std::fmt::Write as _;

// ---------------------------------------------------------------- PRNG

/// xoshiro256** seeded through splitmix64. The single source of randomness.
#[derive(Clone, Debug)]
pub struct Rng {
    s: [u64; 4],
}

pub fn splitmix64(x: &mut u64) -> u64 {
    *x = x.wrapping_add(0x9E37_79B9_7F4A_7C15);
    let mut z = *x;
    z = (z ^ (z >> 30)).wrapping_mul(0xBF58_476D_1CE4_E5B9);
    z = (z ^ (z >> 27)).wrapping_mul(0x94D0_49BB_1331_11EB);
    z ^ (z >> 31)
}

impl Rng {
    pub fn new(seed: u64) -> Rng {
        let mut x = seed;
        Rng {
            s: [
                splitmix64(&mut x),
                splitmix64(&mut x),
                splitmix64(&mut x),
                splitmix64(&mut x),
            ],
        }
    }

    /// Derive an independent stream for (seed, stream id).
    pub fn derive(seed: u64, stream: u64) -> Rng {
        let mut x = seed ^ stream.wrapping_mul(0xD6E8_FEB8_6659_FD93);
        let a = splitmix64(&mut x);
        Rng::new(a ^ stream.rotate_left(32))
    }

    pub fn next_u64(&mut self) -> u64 {
        let r = self.s[1].wrapping_mul(5).rotate_left(7).wrapping_mul(9);
        let t = self.s[1] << 17;
        self.s[2] ^= self.s[0];
        self.s[3] ^= self.s[1];
        self.s[1] ^= self.s[2];
        self.s[0] ^= self.s[3];
        self.s[2] ^= t;
        self.s[3] = self.s[3].rotate_left(45);
        r
    }

    /// Uniform in 0..n (n > 0). Slight modulo bias is irrelevant here.
    pub fn below(&mut self, n: u64) -> u64 {
        debug_assert!(n > 0);
        self.next_u64() % n
    }

    pub fn range(&mut self, lo: u64, hi_incl: u64) -> u64 {
        lo + self.below(hi_incl - lo + 1)
    }

    /// True with probability num/den.
    pub fn chance(&mut self, num: u64, den: u64) -> bool {
        self.below(den) < num
    }

    pub fn pick<'a, T>(&mut self, xs: &'a [T]) -> &'a T {
        &xs[self.below(xs.len() as u64) as usize]
    }
}

// ---------------------------------------------------------------- hashing

/// 128-bit streaming hash (two independent 64-bit multiply-xorshift lanes).
#[derive(Clone, Copy, Debug, PartialEq, Eq, PartialOrd, Ord, Hash)]
pub struct H128(pub u64, pub u64);

#[derive(Clone, Debug)]
pub struct Hasher {
    a: u64,
    b: u64,
    n: u64,
}

impl Default for Hasher {
    fn default() -> Self {
        Hasher::new()
    }
}

impl Hasher {
    pub fn new() -> Hasher {
        Hasher {
            a: 0xCBF2_9CE4_8422_2325,
            b: 0x6C62_272E_07BB_0142,
            n: 0,
        }
    }
    #[inline]
    pub fn u64(&mut self, v: u64) {
        self.n = self.n.wrapping_add(1);
        self.a = (self.a ^ v).wrapping_mul(0x0000_0100_0000_01B3);
        self.a ^= self.a >> 29;
        self.b = (self.b.rotate_left(23) ^ v.wrapping_mul(0x9E37_79B9_7F4A_7C15))
            .wrapping_mul(0xC2B2_AE3D_27D4_EB4F);
        self.b ^= self.b >> 31;
    }
    pub fn bytes(&mut self, bs: &[u8]) {
        self.u64(bs.len() as u64);
        let mut chunks = bs.chunks_exact(8);
        for c in &mut chunks {
            let mut w = [0u8; 8];
            w.copy_from_slice(c);
            self.u64(u64::from_le_bytes(w));
        }
        let rem = chunks.remainder();
        if !rem.is_empty() {
            let mut w = [0u8; 8];
            w[..rem.len()].copy_from_slice(rem);
            self.u64(u64::from_le_bytes(w));
        }
    }
    pub fn finish(&self) -> H128 {
        let mut x = self.a ^ self.n;
        let a = splitmix64(&mut x);
        let mut y = self.b ^ self.n.rotate_left(17);
        let b = splitmix64(&mut y);
        H128(a, b)
    }
}

pub fn hash_bytes(bs: &[u8]) -> H128 {
    let mut h = Hasher::new();
    h.bytes(bs);
    h.finish()
}

impl H128 {
    pub fn hex(&self) -> String {
        format!("{:016x}{:016x}", self.0, self.1)
    }
    pub fn from_hex(s: &str) -> Option<H128> {
        if s.len() != 32 {
            return None;
        }
        Some(H128(
            u64::from_str_radix(&s[..16], 16).ok()?,
            u64::from_str_radix(&s[16..], 16).ok()?,
        ))
    }
}

// ---------------------------------------------------------------- %XX escaping (catalogue files, tsv fields)

pub fn esc(bytes: &[u8]) -> String {
    let mut out = String::with_capacity(bytes.len() + 8);
    for &c in bytes {
        if c < 0x20 || c >= 0x7F || c == b'%' || c == b'\\' {
            let _ = write!(out, "%{c:02X}");
        } else {
            out.push(c as char);
        }
    }
    out
}

pub fn unesc(s: &str) -> Result<Vec<u8>, String> {
    let b = s.as_bytes();
    let mut out = Vec::with_capacity(b.len());
    let mut i = 0;
    while i < b.len() {
        if b[i] == b'%' {
            if i + 3 > b.len() {
                return Err(format!("truncated escape in {s:?}"));
            }
            let hx = std::str::from_utf8(&b[i + 1..i + 3]).map_err(|e| e.to_string())?;
            out.push(u8::from_str_radix(hx, 16).map_err(|e| e.to_string())?);
            i += 3;
        } else {
            out.push(b[i]);
            i += 1;
        }
    }
    Ok(out)
}

// ---------------------------------------------------------------- JSON

#[derive(Clone, Debug, PartialEq)]
pub enum Json {
    Null,
    Bool(bool),
    Num(f64),
    /// Integers are kept exact.
    Int(i128),
    Str(String),
    Arr(Vec<Json>),
    Obj(BTreeMap<String, Json>),
}

impl Json {
    pub fn obj() -> Json {
        Json::Obj(BTreeMap::new())
    }
    pub fn set(&mut self, k: &str, v: Json) -> &mut Json {
        if let Json::Obj(m) = self {
            m.insert(k.to_string(), v);
        }
        self
    }
    pub fn get(&self, k: &str) -> Option<&Json> {
        match self {
            Json::Obj(m) => m.get(k),
            _ => None,
        }
    }
    pub fn as_str(&self) -> Option<&str> {
        match self {
            Json::Str(s) => Some(s),
            _ => None,
        }
    }
    pub fn as_u64(&self) -> Option<u64> {
        match self {
            Json::Int(i) => u64::try_from(*i).ok(),
            Json::Num(f) if *f >= 0.0 && f.fract() == 0.0 => Some(*f as u64),
            _ => None,
        }
    }
    pub fn as_bool(&self) -> Option<bool> {
        match self {
            Json::Bool(b) => Some(*b),
            _ => None,
        }
    }
    pub fn as_arr(&self) -> Option<&[Json]> {
        match self {
            Json::Arr(a) => Some(a),
            _ => None,
        }
    }
    pub fn s(v: &str) -> Json {
        Json::Str(v.to_string())
    }
    pub fn u(v: u64) -> Json {
        Json::Int(i128::from(v))
    }

    pub fn write(&self, out: &mut String, indent: usize, level: usize) {
        let nl = |out: &mut String, level: usize| {
            if indent > 0 {
                out.push('\n');
                for _ in 0..indent * level {
                    out.push(' ');
                }
            }
        };
        match self {
            Json::Null => out.push_str("null"),
            Json::Bool(b) => out.push_str(if *b { "true" } else { "false" }),
            Json::Num(f) => {
                if f.is_finite() {
                    let _ = write!(out, "{f}");
                } else {
                    out.push_str("null");
                }
            }
            Json::Int(i) => {
                let _ = write!(out, "{i}");
            }
            Json::Str(s) => write_json_str(out, s),
            Json::Arr(a) => {
                out.push('[');
                for (k, v) in a.iter().enumerate() {
                    if k > 0 {
                        out.push(',');
                    }
                    nl(out, level + 1);
                    v.write(out, indent, level + 1);
                }
                if !a.is_empty() {
                    nl(out, level);
                }
                out.push(']');
            }
            Json::Obj(m) => {
                out.push('{');
                for (k, (key, v)) in m.iter().enumerate() {
                    if k > 0 {
                        out.push(',');
                    }
                    nl(out, level + 1);
                    write_json_str(out, key);
                    out.push(':');
                    if indent > 0 {
                        out.push(' ');
                    }
                    v.write(out, indent, level + 1);
                }
                if !m.is_empty() {
                    nl(out, level);
                }
                out.push('}');
            }
        }
    }

    pub fn to_string_pretty(&self) -> String {
        let mut s = String::new();
        self.write(&mut s, 1, 0);
        s.push('\n');
        s
    }
    pub fn to_string_compact(&self) -> String {
        let mut s = String::new();
        self.write(&mut s, 0, 0);
        s
    }

    pub fn parse(text: &str) -> Result<Json, String> {
        let mut p = Parser {
            b: text.as_bytes(),
            i: 0,
        };
        let v = p.value()?;
        p.ws();
        if p.i != p.b.len() {
            return Err(format!("trailing data at {}", p.i));
        }
        Ok(v)
    }
}

fn write_json_str(out: &mut String, s: &str) {
    out.push('"');
    for c in s.chars() {
        match c {
            '"' => out.push_str("\\\""),
            '\\' => out.push_str("\\\\"),
            '\n' => out.push_str("\\n"),
            '\r' => out.push_str("\\r"),
            '\t' => out.push_str("\\t"),
            c if (c as u32) < 0x20 || c == '\u{7f}' => {
                let _ = write!(out, "\\u{:04x}", c as u32);
            }
            c => out.push(c),
        }
    }
    out.push('"');
}

struct Parser<'a> {
    b: &'a [u8],
    i: usize,
}

impl Parser<'_> {
    fn ws(&mut self) {
        while self.i < self.b.len() && matches!(self.b[self.i], b' ' | b'\n' | b'\r' | b'\t') {
            self.i += 1;
        }
    }
    fn value(&mut self) -> Result<Json, String> {
        self.ws();
        let Some(&c) = self.b.get(self.i) else {
            return Err("unexpected end".into());
        };
        match c {
            b'{' => {
                self.i += 1;
                let mut m = BTreeMap::new();
                self.ws();
                if self.b.get(self.i) == Some(&b'}') {
                    self.i += 1;
                    return Ok(Json::Obj(m));
                }
                loop {
                    self.ws();
                    let k = self.string()?;
                    self.ws();
                    if self.b.get(self.i) != Some(&b':') {
                        return Err(format!("expected ':' at {}", self.i));
                    }
                    self.i += 1;
                    let v = self.value()?;
                    m.insert(k, v);
                    self.ws();
                    match self.b.get(self.i) {
                        Some(b',') => self.i += 1,
                        Some(b'}') => {
                            self.i += 1;
                            return Ok(Json::Obj(m));
                        }
                        _ => return Err(format!("expected ',' or '}}' at {}", self.i)),
                    }
                }
            }
            b'[' => {
                self.i += 1;
                let mut a = Vec::new();
                self.ws();
                if self.b.get(self.i) == Some(&b']') {
                    self.i += 1;
                    return Ok(Json::Arr(a));
                }
                loop {
                    a.push(self.value()?);
                    self.ws();
                    match self.b.get(self.i) {
                        Some(b',') => self.i += 1,
                        Some(b']') => {
                            self.i += 1;
                            return Ok(Json::Arr(a));
                        }
                        _ => return Err(format!("expected ',' or ']' at {}", self.i)),
                    }
                }
            }
            b'"' => Ok(Json::Str(self.string()?)),
            b't' if self.b[self.i..].starts_with(b"true") => {
                self.i += 4;
                Ok(Json::Bool(true))
            }
            b'f' if self.b[self.i..].starts_with(b"false") => {
                self.i += 5;
                Ok(Json::Bool(false))
            }
            b'n' if self.b[self.i..].starts_with(b"null") => {
                self.i += 4;
                Ok(Json::Null)
            }
            _ => {
                let st = self.i;
                while self.i < self.b.len()
                    && matches!(self.b[self.i], b'0'..=b'9' | b'-' | b'+' | b'.' | b'e' | b'E')
                {
                    self.i += 1;
                }
                let t = std::str::from_utf8(&self.b[st..self.i]).map_err(|e| e.to_string())?;
                if let Ok(i) = t.parse::<i128>() {
                    Ok(Json::Int(i))
                } else {
                    t.parse::<f64>()
                        .map(Json::Num)
                        .map_err(|_| format!("bad number {t:?} at {st}"))
                }
            }
        }
    }
    fn string(&mut self) -> Result<String, String> {
        if self.b.get(self.i) != Some(&b'"') {
            return Err(format!("expected string at {}", self.i));
        }
        self.i += 1;
        let mut out = String::new();
        loop {
            let Some(&c) = self.b.get(self.i) else {
                return Err("unterminated string".into());
            };
            match c {
                b'"' => {
                    self.i += 1;
                    return Ok(out);
                }
                b'\\' => {
                    let e = *self.b.get(self.i + 1).ok_or("bad escape")?;
                    self.i += 2;
                    match e {
                        b'n' => out.push('\n'),
                        b'r' => out.push('\r'),
                        b't' => out.push('\t'),
                        b'b' => out.push('\u{8}'),
                        b'f' => out.push('\u{c}'),
                        b'/' => out.push('/'),
                        b'\\' => out.push('\\'),
                        b'"' => out.push('"'),
                        b'u' => {
                            let mut cp = self.hex4()?;
                            if (0xD800..0xDC00).contains(&cp)
                                && self.b.get(self.i) == Some(&b'\\')
                                && self.b.get(self.i + 1) == Some(&b'u')
                            {
                                self.i += 2;
                                let lo = self.hex4()?;
                                cp = 0x10000 + ((cp - 0xD800) << 10) + (lo - 0xDC00);
                            }
                            out.push(char::from_u32(cp).unwrap_or('\u{fffd}'));
                        }
                        _ => return Err("bad escape".into()),
                    }
                }
                _ => {
                    // copy one UTF-8 scalar
                    let st = self.i;
                    self.i += 1;
                    while self.i < self.b.len() && (self.b[self.i] & 0xC0) == 0x80 {
                        self.i += 1;
                    }
                    out.push_str(
                        std::str::from_utf8(&self.b[st..self.i]).map_err(|e| e.to_string())?,
                    );
                }
            }
        }
    }
    fn hex4(&mut self) -> Result<u32, String> {
        let t = self.b.get(self.i..self.i + 4).ok_or("bad \\u")?;
        self.i += 4;
        u32::from_str_radix(std::str::from_utf8(t).map_err(|e| e.to_string())?, 16)
            .map_err(|e| e.to_string())
    }
}
