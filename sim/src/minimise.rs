//! Shrinks a failing scenario while the same violation class persists. Every candidate
//! is re-executed on the real code.

use crate::reference::{clean_room, RefResult};
use crate::sim::{run_scenario, Op, Placement, Scenario, Violation};
use sas_lexer::verif::Knobs;
use std::time::{Duration, Instant};

pub struct Minimised {
    pub scenario: Scenario,
    pub violation: Violation,
    pub candidates_tried: u64,
    pub original_ops: usize,
    pub final_ops: usize,
    /// true when every source's expectation in `scenario` was recomputed alone in a fresh
    /// process (the canonical clean room); false when they still come from the reference pass
    pub canonical: bool,
}

fn count_ops(sc: &Scenario) -> usize {
    sc.clients.iter().map(Vec::len).sum()
}

/// Evaluates a candidate in a FRESH child process (`c19sim eval <file>`): statics and
/// thread-locals of the lexer under test must not carry over from one candidate to the next,
/// or a candidate could "fail" only because of what an earlier candidate left behind - and
/// the final replay file, run in a new process, would not reproduce.
fn fails(sc: &Scenario, class: &str, tried: &mut u64) -> Option<Violation> {
    *tried += 1;
    match eval_in_child(sc) {
        Some(vs) => vs.into_iter().find(|v| v.class() == class),
        // could not spawn: fall back to this process
        None => run_scenario(sc).violations.into_iter().find(|v| v.class() == class),
    }
}

fn scratch_dir() -> std::path::PathBuf {
    let d = std::path::PathBuf::from(
        std::env::var("C19_SCRATCH").unwrap_or_else(|_| "/verif/work/minimise".to_string()),
    );
    let _ = std::fs::create_dir_all(&d);
    d
}

fn eval_in_child(sc: &Scenario) -> Option<Vec<Violation>> {
    let path = scratch_dir().join(format!("cand-{}.json", std::process::id()));
    std::fs::write(&path, crate::gen::scenario_to_json(sc).to_string_compact()).ok()?;
    let exe = std::env::current_exe().ok()?;
    let out = std::process::Command::new(exe).arg("eval").arg(&path).output().ok()?;
    let _ = std::fs::remove_file(&path);
    let text = String::from_utf8_lossy(&out.stdout);
    if !text.contains("eval-done") {
        // the child died (stall, abort): not usable as a candidate verdict
        return Some(vec![]);
    }
    let mut vs = Vec::new();
    for l in text.lines() {
        let f: Vec<&str> = l.split('\t').collect();
        if f.len() >= 8 && f[0] == "violation" {
            vs.push(Violation {
                client: f[1].parse().unwrap_or(0),
                op: f[2].parse().unwrap_or(usize::MAX),
                what: match f[3] {
                    "lex" => "lex",
                    "stall" => "stall",
                    _ => "read-shared",
                },
                src: f[4].parse().unwrap_or(0),
                expected: f[5].to_string(),
                got: f[6].to_string(),
                detail: f[7].to_string(),
            });
        }
    }
    Some(vs)
}

/// Does this scenario show a violation of `class` when run alone in a fresh process?
pub fn reproduces_in_fresh_process(sc: &Scenario, class: &str) -> bool {
    let mut n = 0;
    fails(sc, class, &mut n).is_some()
}

pub fn expect_in_child_pub(text: &str) -> Option<String> {
    expect_in_child(text)
}

/// Clean-room outcome of a text in a fresh child process.
fn expect_in_child(text: &str) -> Option<String> {
    let path = scratch_dir().join(format!("text-{}.tsv", std::process::id()));
    std::fs::write(&path, format!("0\t{}\n", crate::util::esc(text.as_bytes()))).ok()?;
    let exe = std::env::current_exe().ok()?;
    let out = std::process::Command::new(exe).arg("keys").arg("--file").arg(&path).output().ok()?;
    let _ = std::fs::remove_file(&path);
    let text = String::from_utf8_lossy(&out.stdout);
    let line = text.lines().find(|l| l.starts_with("0\t"))?;
    let key = line.split_once('\t')?.1;
    String::from_utf8(crate::util::unesc(key).ok()?).ok()
}

fn remove_client(sc: &Scenario, c: usize) -> Scenario {
    let mut s = sc.clone();
    s.clients.remove(c);
    if let Some(sched) = &mut s.schedule {
        sched.retain(|(_, k)| *k as usize != c);
        for e in sched.iter_mut() {
            if e.1 as usize > c {
                e.1 -= 1;
            }
        }
    }
    s
}

fn gc_sources(sc: &Scenario) -> Scenario {
    let mut used = vec![false; sc.sources.len()];
    for c in &sc.clients {
        for op in c {
            if let Op::Lex(l) = op {
                used[l.src] = true;
            }
        }
    }
    let mut map = vec![usize::MAX; sc.sources.len()];
    let mut s = sc.clone();
    s.sources.clear();
    for (i, u) in used.iter().enumerate() {
        if *u {
            map[i] = s.sources.len();
            s.sources.push(sc.sources[i].clone());
        }
    }
    for c in &mut s.clients {
        for op in c {
            if let Op::Lex(l) = op {
                l.src = map[l.src];
            }
        }
    }
    s
}

pub fn minimise(original: &Scenario, first: &Violation, limit: Duration) -> Minimised {
    let class = first.class();
    let t0 = Instant::now();
    let mut tried = 0u64;
    let original_ops = count_ops(original);
    let mut best = original.clone();
    let mut best_v = first.clone();

    // 1. freeze the schedule: replace the PRNG strategy by the recorded switches
    if best.schedule.is_none() {
        let r = run_scenario(&best);
        tried += 1;
        let mut frozen = best.clone();
        frozen.schedule = Some(r.recorded.clone());
        if let Some(v) = fails(&frozen, &class, &mut tried) {
            best = frozen;
            best_v = v;
        }
    }

    let mut progress = true;
    let mut canonical = false;
    let mut canonical_failed = false;
    while progress && t0.elapsed() < limit {
        progress = false;
        // 2. drop clients
        let mut c = 0;
        while c < best.clients.len() && best.clients.len() > 1 {
            let cand = remove_client(&best, c);
            if let Some(v) = fails(&cand, &class, &mut tried) {
                best = cand;
                best_v = v;
                progress = true;
            } else {
                c += 1;
            }
        }
        // 3a. long scripts: cut everything after the failing op, then drop chunks of ops
        for c in 0..best.clients.len() {
            if best.clients[c].len() <= 12 {
                continue;
            }
            if best_v.client == c && best_v.op != usize::MAX && best_v.op + 1 < best.clients[c].len() {
                let mut cand = best.clone();
                cand.clients[c].truncate(best_v.op + 1);
                if let Some(v) = fails(&cand, &class, &mut tried) {
                    best = cand;
                    best_v = v;
                    progress = true;
                }
            }
            let mut chunk = best.clients[c].len() / 2;
            while chunk >= 2 && t0.elapsed() < limit {
                let mut i = 0;
                while i + chunk <= best.clients[c].len() && t0.elapsed() < limit {
                    let mut cand = best.clone();
                    cand.clients[c].drain(i..i + chunk);
                    if let Some(v) = fails(&cand, &class, &mut tried) {
                        best = cand;
                        best_v = v;
                        progress = true;
                    } else {
                        i += chunk;
                    }
                }
                chunk /= 2;
            }
            best = gc_sources(&best);
        }
        // 3b. once few sources are left, switch to canonical expectations: each source alone
        // in a fresh process (the reference pass lexes thousands of sources per process, so
        // its table may itself carry history of a changed lexer)
        if !canonical && !canonical_failed {
            let trimmed = gc_sources(&best);
            if trimmed.sources.len() <= 64 {
                let mut cand = trimmed.clone();
                for src in &mut cand.sources {
                    if let Some(k) = expect_in_child(&src.text) {
                        src.expect = k;
                    }
                }
                if let Some(v) = fails(&cand, &class, &mut tried) {
                    best = cand;
                    best_v = v;
                    canonical = true;
                    progress = true;
                } else {
                    // only reproducible against the reference table: keep that, stop here
                    canonical_failed = true;
                    best = trimmed;
                    break;
                }
            }
        }
        // 3. drop ops, last first
        for c in 0..best.clients.len() {
            let mut i = best.clients[c].len();
            while i > 0 {
                i -= 1;
                let mut cand = best.clone();
                cand.clients[c].remove(i);
                if let Some(v) = fails(&cand, &class, &mut tried) {
                    best = cand;
                    best_v = v;
                    progress = true;
                }
                if t0.elapsed() > limit {
                    break;
                }
            }
        }
        // 4. reset faults and knobs one by one
        if best.junk.is_some() {
            let mut cand = best.clone();
            cand.junk = None;
            if let Some(v) = fails(&cand, &class, &mut tried) {
                best = cand;
                best_v = v;
                progress = true;
            }
        }
        for c in 0..best.clients.len() {
            for i in 0..best.clients[c].len() {
                for what in 0..8 {
                    if t0.elapsed() > limit {
                        break;
                    }
                    // applicable at all? (cloning a long scenario is expensive)
                    {
                        let Op::Lex(l) = &best.clients[c][i] else { break };
                        let applicable = match what {
                            0 => l.crash.is_some(),
                            1 => !l.shrink_at.is_empty(),
                            2 => l.placement != Placement::Exact,
                            3 => l.knobs != Knobs::default(),
                            4 => l.knobs.token_cap.is_some(),
                            5 => l.knobs.line_cap.is_some(),
                            6 => l.knobs.str_lit_cap.is_some(),
                            _ => l.knobs.mode_stack_cap.is_some(),
                        };
                        if !applicable {
                            continue;
                        }
                    }
                    let mut cand = best.clone();
                    let Op::Lex(l) = &mut cand.clients[c][i] else { continue };
                    let changed = match what {
                        0 if l.crash.is_some() => {
                            l.crash = None;
                            true
                        }
                        1 if !l.shrink_at.is_empty() => {
                            l.shrink_at.clear();
                            true
                        }
                        2 if l.placement != Placement::Exact => {
                            l.placement = Placement::Exact;
                            true
                        }
                        3 if l.knobs != Knobs::default() => {
                            l.knobs = Knobs::default();
                            true
                        }
                        4 if l.knobs.token_cap.is_some() => {
                            l.knobs.token_cap = None;
                            true
                        }
                        5 if l.knobs.line_cap.is_some() => {
                            l.knobs.line_cap = None;
                            true
                        }
                        6 if l.knobs.str_lit_cap.is_some() => {
                            l.knobs.str_lit_cap = None;
                            true
                        }
                        7 if l.knobs.mode_stack_cap.is_some() => {
                            l.knobs.mode_stack_cap = None;
                            true
                        }
                        _ => false,
                    };
                    if !changed {
                        continue;
                    }
                    if let Some(v) = fails(&cand, &class, &mut tried) {
                        best = cand;
                        best_v = v;
                        progress = true;
                    }
                }
            }
        }
        // 5. delete switch points (chunks first)
        if let Some(sched) = best.schedule.clone() {
            let mut chunk = (sched.len() / 2).max(1);
            let mut cur = sched;
            while chunk >= 1 && t0.elapsed() < limit {
                let mut i = if cur.is_empty() { 0 } else { 1.min(cur.len()) }; // keep entry 0 (first holder)
                while i < cur.len() {
                    let end = (i + chunk).min(cur.len());
                    let mut cand_s = cur.clone();
                    cand_s.drain(i..end);
                    let mut cand = best.clone();
                    cand.schedule = Some(cand_s.clone());
                    if let Some(v) = fails(&cand, &class, &mut tried) {
                        best = cand;
                        best_v = v;
                        cur = cand_s;
                        progress = true;
                    } else {
                        i = end;
                    }
                    if t0.elapsed() > limit {
                        break;
                    }
                }
                if chunk == 1 {
                    break;
                }
                chunk /= 2;
            }
        }
        // 6. shrink the text of the source the violation is about
        best = gc_sources(&best);
        for si in 0..(if canonical { best.sources.len() } else { 0 }) {
            loop {
                if t0.elapsed() > limit {
                    break;
                }
                let text = best.sources[si].text.clone();
                let mut improved = false;
                let bounds: Vec<usize> =
                    text.char_indices().map(|(i, _)| i).chain(std::iter::once(text.len())).collect();
                let nchars = bounds.len() - 1;
                let mut chunk = (nchars / 2).max(1);
                'outer: while chunk >= 1 {
                    let mut i = 0;
                    while i + chunk <= nchars {
                        let mut t = String::with_capacity(text.len());
                        t.push_str(&text[..bounds[i]]);
                        t.push_str(&text[bounds[i + chunk]..]);
                        let expect = expect_in_child(&t).unwrap_or_else(|| match clean_room(&t) {
                            RefResult::Done(o) => o.key(),
                            RefResult::Stalled => "S".to_string(),
                        });
                        let mut cand = best.clone();
                        cand.sources[si].text = t;
                        cand.sources[si].expect = expect;
                        cand.sources[si].id = format!("{}~min", best.sources[si].id.trim_end_matches("~min"));
                        if let Some(v) = fails(&cand, &class, &mut tried) {
                            best = cand;
                            best_v = v;
                            improved = true;
                            progress = true;
                            break 'outer;
                        }
                        i += chunk;
                        if t0.elapsed() > limit {
                            break 'outer;
                        }
                    }
                    if chunk == 1 {
                        break;
                    }
                    chunk /= 2;
                }
                if !improved {
                    break;
                }
            }
        }
    }
    let final_ops = count_ops(&best);
    Minimised { scenario: best, violation: best_v, candidates_tried: tried, original_ops, final_ops, canonical }
}
