//! Canonical dump of a lexing outcome: everything C19 speaks of (tokens, payloads,
//! literal buffer, errors) plus everything the public accessors derive from it.

use crate::util::{esc, H128, Hasher};
use sas_lexer::error::ErrorInfo;
use sas_lexer::{LexResult, Payload, TokenizedBuffer};
use std::fmt::Write as _;

pub trait Sink {
    fn section(&mut self, name: &str);
    fn num(&mut self, name: &str, v: u64);
    fn text(&mut self, name: &str, v: Option<&str>);
    fn end_row(&mut self);
}

pub struct HashSink(pub Hasher);

impl Sink for HashSink {
    fn section(&mut self, name: &str) {
        self.0.bytes(name.as_bytes());
    }
    fn num(&mut self, _name: &str, v: u64) {
        self.0.u64(v);
    }
    fn text(&mut self, _name: &str, v: Option<&str>) {
        match v {
            None => self.0.u64(u64::MAX),
            Some(s) => self.0.bytes(s.as_bytes()),
        }
    }
    fn end_row(&mut self) {
        self.0.u64(0x0A);
    }
}

#[derive(Default)]
pub struct TextSink(pub String);

impl Sink for TextSink {
    fn section(&mut self, name: &str) {
        let _ = writeln!(self.0, "[{name}]");
    }
    fn num(&mut self, name: &str, v: u64) {
        let _ = write!(self.0, "{name}={v} ");
    }
    fn text(&mut self, name: &str, v: Option<&str>) {
        match v {
            None => {
                let _ = write!(self.0, "{name}=- ");
            }
            Some(s) => {
                let _ = write!(self.0, "{name}=<{}> ", esc(s.as_bytes()));
            }
        }
    }
    fn end_row(&mut self) {
        self.0.push('\n');
    }
}

fn payload<S: Sink>(s: &mut S, p: Payload) {
    match p {
        Payload::None => s.num("p", 0),
        Payload::Integer(i) => {
            s.num("p", 1);
            s.num("int", i);
        }
        Payload::Float(f) => {
            s.num("p", 2);
            s.num("f64bits", f.to_bits());
        }
        Payload::StringLiteral(a, b) => {
            s.num("p", 3);
            s.num("lit_from", u64::from(a));
            s.num("lit_to", u64::from(b));
        }
    }
}

fn err_or<T>(r: Result<T, sas_lexer::error::ErrorKind>, f: impl FnOnce(T) -> u64) -> u64 {
    match r {
        Ok(v) => f(v),
        Err(e) => 0xFFFF_0000_0000_0000 | u64::from(e as u16),
    }
}

/// Everything the per-token accessors return for one token.
#[derive(Default, Clone)]
struct Acc<'a> {
    nums: [u64; 10],
    payload: Option<Result<Payload, u16>>,
    raw: Option<Result<Option<&'a str>, u16>>,
    res: Option<Result<Option<&'a str>, u16>>,
    lit: Option<Result<&'a str, u16>>,
}

const N_ACCESSORS: usize = 14;
const ACC_NAMES: [&str; 10] = [
    "a_byte", "a_start", "a_end_byte", "a_end", "a_line", "a_end_line", "a_col", "a_end_col", "a_ty", "a_ch",
];

fn call_accessor<'a, A: AsRef<str>>(
    k: usize,
    buf: &'a TokenizedBuffer,
    src: &'a A,
    tidx: sas_lexer::TokenIdx,
    info_payload: Payload,
    rec: &mut Acc<'a>,
) {
    match k {
        0 => rec.nums[0] = err_or(buf.get_token_start_byte_offset(tidx), |v| u64::from(v.get())),
        1 => rec.nums[1] = err_or(buf.get_token_start(tidx), |v| u64::from(v.get())),
        2 => rec.nums[2] = err_or(buf.get_token_end_byte_offset(tidx), |v| u64::from(v.get())),
        3 => rec.nums[3] = err_or(buf.get_token_end(tidx), |v| u64::from(v.get())),
        4 => rec.nums[4] = err_or(buf.get_token_start_line(tidx), u64::from),
        5 => rec.nums[5] = err_or(buf.get_token_end_line(tidx), u64::from),
        6 => rec.nums[6] = err_or(buf.get_token_start_column(tidx), u64::from),
        7 => rec.nums[7] = err_or(buf.get_token_end_column(tidx), u64::from),
        8 => rec.nums[8] = err_or(buf.get_token_type(tidx), |v| v as u64),
        9 => rec.nums[9] = err_or(buf.get_token_channel(tidx), |v| v as u64),
        10 => rec.payload = Some(buf.get_token_payload(tidx).map_err(|e| e as u16)),
        11 => rec.raw = Some(buf.get_token_raw_text(tidx, src).map_err(|e| e as u16)),
        12 => rec.res = Some(buf.get_token_resolved_text(tidx, src).map_err(|e| e as u16)),
        _ => {
            if let Payload::StringLiteral(a, b) = info_payload {
                rec.lit = Some(buf.get_string_literal(a, b).map_err(|e| e as u16));
            }
        }
    }
}

/// Walks the buffer through every public accessor. `tick` is called about once per token
/// (a harness-side yield point for readers of shared results). `variant` changes only the
/// ORDER in which the accessors are called (0 token-major, 1 accessor-major, 2 everything
/// backwards, 3 bulk view first); what is emitted is always in canonical order, so every
/// variant must produce the same dump.
pub fn dump_buffer<'a, S: Sink, A: AsRef<str>>(
    s: &mut S,
    src: &'a A,
    buf: &'a TokenizedBuffer,
    tick: &mut dyn FnMut(),
    variant: u32,
) {
    let infos: Vec<(sas_lexer::TokenIdx, sas_lexer::TokenInfo)> =
        buf.iter_tokens_infos().map(|(t, i)| (t, *i)).collect();
    let n = infos.len();
    let resolved_first = if variant == 3 { Some(buf.into_resolved_token_vec()) } else { None };
    let mut recs: Vec<Acc<'a>> = vec![Acc::default(); n];
    match variant {
        v if v >= 16 => {
            // token-major, starting at token `v - 16` and wrapping around
            let k0 = (v as usize - 16).min(n);
            for j in (k0..n).chain(0..k0) {
                tick();
                let (tidx, info) = &infos[j];
                for k in 0..N_ACCESSORS {
                    call_accessor(k, buf, src, *tidx, info.payload(), &mut recs[j]);
                }
            }
        }
        1 => {
            for k in 0..N_ACCESSORS {
                for (j, (tidx, info)) in infos.iter().enumerate() {
                    if j % N_ACCESSORS == k {
                        tick();
                    }
                    call_accessor(k, buf, src, *tidx, info.payload(), &mut recs[j]);
                }
            }
        }
        2 => {
            for (j, (tidx, info)) in infos.iter().enumerate().rev() {
                tick();
                for k in (0..N_ACCESSORS).rev() {
                    call_accessor(k, buf, src, *tidx, info.payload(), &mut recs[j]);
                }
            }
        }
        _ => {
            for (j, (tidx, info)) in infos.iter().enumerate() {
                tick();
                for k in 0..N_ACCESSORS {
                    call_accessor(k, buf, src, *tidx, info.payload(), &mut recs[j]);
                }
            }
        }
    }
    s.section("tokens");
    s.num("token_count", u64::from(buf.token_count()));
    s.num("line_count", u64::from(buf.line_count()));
    s.end_row();
    for (j, (tidx, info)) in infos.iter().enumerate() {
        s.num("i", u64::from(tidx.get()));
        s.num("ch", info.channel() as u64);
        s.num("ty", info.token_type() as u64);
        s.num("byte", u64::from(info.byte_offset().get()));
        s.num("start", u64::from(info.start().get()));
        s.num("line", u64::from(info.line()));
        payload(s, info.payload());
        // accessor view
        let rec = &recs[j];
        for (k, name) in ACC_NAMES.iter().enumerate() {
            s.num(name, rec.nums[k]);
        }
        match rec.payload {
            Some(Ok(p)) => payload(s, p),
            Some(Err(e)) => s.num("a_payload_err", u64::from(e)),
            None => {}
        }
        match rec.raw {
            Some(Ok(t)) => s.text("raw", t),
            Some(Err(e)) => s.num("raw_err", u64::from(e)),
            None => {}
        }
        match rec.res {
            Some(Ok(t)) => s.text("res", t),
            Some(Err(e)) => s.num("res_err", u64::from(e)),
            None => {}
        }
        match rec.lit {
            Some(Ok(t)) => s.text("lit", Some(t)),
            Some(Err(e)) => s.num("lit_err", u64::from(e)),
            None => {}
        }
        s.end_row();
    }
    // second iteration API
    s.section("iter_tokens");
    let mut cnt = 0u64;
    let mut last = 0u64;
    for t in buf.iter_tokens() {
        cnt += 1;
        last = u64::from(t.get());
    }
    s.num("n", cnt);
    s.num("last", last);
    s.end_row();
    s.section("literals");
    s.text("buffer", Some(buf.string_literals_buffer()));
    s.end_row();
    s.section("resolved");
    let resolved = resolved_first.unwrap_or_else(|| buf.into_resolved_token_vec());
    for r in resolved {
        if variant != 1 {
            tick();
        }
        s.num("i", u64::from(r.token_index));
        s.num("ch", r.channel as u64);
        s.num("ty", r.token_type as u64);
        s.num("start", u64::from(r.start));
        s.num("stop", u64::from(r.stop));
        s.num("line", u64::from(r.line));
        s.num("col", u64::from(r.column));
        s.num("end_line", u64::from(r.end_line));
        s.num("end_col", u64::from(r.end_column));
        payload(s, r.payload);
        s.end_row();
    }
}

/// Calls every accessor for tokens `0..upto` (token-major) and throws the answers away:
/// leaves whatever lookup hints / memos the buffer keeps in the state a consumer that
/// stopped half-way would leave them in.
pub fn partial_walk<A: AsRef<str>>(src: &A, buf: &TokenizedBuffer, upto: usize) {
    let mut rec = Acc::default();
    for (tidx, info) in buf.iter_tokens_infos().take(upto) {
        for k in 0..N_ACCESSORS {
            call_accessor(k, buf, src, tidx, info.payload(), &mut rec);
        }
    }
}

pub fn dump_errors<S: Sink>(s: &mut S, errors: &[ErrorInfo]) {
    s.section("errors");
    s.num("n", errors.len() as u64);
    s.end_row();
    for e in errors {
        s.num("kind", u64::from(e.error_kind() as u16));
        s.num("byte", u64::from(e.at_byte_offset()));
        s.num("char", u64::from(e.at_char_offset()));
        s.num("line", u64::from(e.on_line()));
        s.num("col", u64::from(e.at_column()));
        s.num(
            "last_token",
            e.last_token().map_or(u64::MAX, |t| u64::from(t.get())),
        );
        s.end_row();
    }
}

pub fn hash_result<A: AsRef<str>>(src: &A, res: &LexResult, tick: &mut dyn FnMut()) -> H128 {
    hash_result_v(src, res, tick, 0)
}

/// Same dump, accessors called in another order (see `dump_buffer`).
pub fn hash_result_v<A: AsRef<str>>(src: &A, res: &LexResult, tick: &mut dyn FnMut(), variant: u32) -> H128 {
    let mut s = HashSink(Hasher::new());
    dump_buffer(&mut s, src, &res.buffer, tick, variant);
    dump_errors(&mut s, &res.errors);
    s.0.finish()
}

pub fn text_result<A: AsRef<str>>(src: &A, res: &LexResult) -> String {
    let mut s = TextSink::default();
    dump_buffer(&mut s, src, &res.buffer, &mut || {}, 0);
    dump_errors(&mut s, &res.errors);
    s.0
}
