//! Running one `lex_program` call and classifying how it ended.

use crate::dump;
use crate::util::H128;
use sas_lexer::{lex_program, LexResult};
use std::cell::RefCell;
use std::panic::{self, AssertUnwindSafe};

/// Panic payload used by the simulator to kill a call half-way (a "crash").
pub struct InjectedCrash;
/// Panic payload used when a call exceeds its main-loop step budget.
pub struct BudgetExceeded;

#[derive(Clone, Debug, PartialEq, Eq)]
pub enum Outcome {
    Returned { hash: H128, tokens: u32, errors: u32 },
    /// A panic that came out of the lexer or out of a buffer accessor.
    Panicked { msg: String, file: String, line: u32, in_accessors: bool },
    Budget,
    Crash,
    ApiErr(u16),
}

impl Outcome {
    /// Comparable identity. Line numbers of panics are left out on purpose: the
    /// same assertion is the same site in every build of one tree.
    pub fn key(&self) -> String {
        match self {
            Outcome::Returned { hash, .. } => format!("R:{}", hash.hex()),
            Outcome::Panicked { msg, file, in_accessors, .. } => format!(
                "P:{}{}@{}",
                if *in_accessors { "(accessor)" } else { "" },
                first_line(msg),
                short_file(file)
            ),
            Outcome::Budget => "B".to_string(),
            Outcome::Crash => "C".to_string(),
            Outcome::ApiErr(c) => format!("E:{c}"),
        }
    }
    pub fn kind(&self) -> &'static str {
        match self {
            Outcome::Returned { .. } => "Returned",
            Outcome::Panicked { .. } => "Panicked",
            Outcome::Budget => "BudgetExceeded",
            Outcome::Crash => "InjectedCrash",
            Outcome::ApiErr(_) => "ApiErr",
        }
    }
}

fn first_line(s: &str) -> &str {
    s.lines().next().unwrap_or("")
}

/// Path relative to the crate (build-independent).
pub fn short_file(f: &str) -> &str {
    if let Some(p) = f.find("/src/lexer/") {
        &f[p + 5..]
    } else if let Some(p) = f.find("/library/") {
        &f[p + 1..]
    } else {
        f
    }
}

thread_local! {
    static LAST_PANIC: RefCell<Option<(String, String, u32)>> = const { RefCell::new(None) };
}

/// Installs a silent process-wide panic hook that records message and location per thread.
pub fn install_panic_hook() {
    panic::set_hook(Box::new(|info| {
        let payload = info.payload();
        let msg = if payload.is::<InjectedCrash>() {
            "<injected crash>".to_string()
        } else if payload.is::<BudgetExceeded>() {
            "<budget exceeded>".to_string()
        } else if let Some(s) = payload.downcast_ref::<&str>() {
            (*s).to_string()
        } else if let Some(s) = payload.downcast_ref::<String>() {
            s.clone()
        } else {
            "<non-string panic payload>".to_string()
        };
        let (file, line) = info
            .location()
            .map_or(("?".to_string(), 0), |l| (l.file().to_string(), l.line()));
        // try_with: the hook may run during thread teardown
        let _ = LAST_PANIC.try_with(|p| {
            if let Ok(mut p) = p.try_borrow_mut() {
                *p = Some((msg, file, line));
            }
        });
    }));
}

fn take_last_panic() -> (String, String, u32) {
    LAST_PANIC
        .with(|p| p.borrow_mut().take())
        .unwrap_or_else(|| ("<unknown>".into(), "?".into(), 0))
}

fn classify(e: Box<dyn std::any::Any + Send>, in_accessors: bool) -> Outcome {
    if e.is::<InjectedCrash>() {
        let _ = take_last_panic();
        Outcome::Crash
    } else if e.is::<BudgetExceeded>() {
        let _ = take_last_panic();
        Outcome::Budget
    } else {
        let (msg, file, line) = take_last_panic();
        Outcome::Panicked { msg, file, line, in_accessors }
    }
}

/// Calls the real `lex_program` on `src` and dumps the result through every accessor.
/// Returns the outcome and, when it returned, the result itself.
pub fn run_lex<A: AsRef<str>>(src: &A, tick: &mut dyn FnMut()) -> (Outcome, Option<LexResult>) {
    run_lex_v(src, tick, 0)
}

/// As `run_lex`, with the accessors of the fresh result called in order `variant`.
pub fn run_lex_v<A: AsRef<str>>(src: &A, tick: &mut dyn FnMut(), variant: u32) -> (Outcome, Option<LexResult>) {
    let r = panic::catch_unwind(AssertUnwindSafe(|| lex_program(src)));
    match r {
        Err(e) => (classify(e, false), None),
        Ok(Err(kind)) => (Outcome::ApiErr(kind as u16), None),
        Ok(Ok(res)) => {
            let o = outcome_of_result_v(src, &res, tick, variant);
            (o, Some(res))
        }
    }
}

/// Dumps an existing result (used for results shared between clients).
pub fn outcome_of_result<A: AsRef<str>>(
    src: &A,
    res: &LexResult,
    tick: &mut dyn FnMut(),
) -> Outcome {
    outcome_of_result_v(src, res, tick, 0)
}

/// As `outcome_of_result`, with the accessors called in order `variant`.
pub fn outcome_of_result_v<A: AsRef<str>>(
    src: &A,
    res: &LexResult,
    tick: &mut dyn FnMut(),
    variant: u32,
) -> Outcome {
    let h = panic::catch_unwind(AssertUnwindSafe(|| dump::hash_result_v(src, res, tick, variant)));
    match h {
        Ok(hash) => Outcome::Returned {
            hash,
            tokens: res.buffer.token_count(),
            errors: res.errors.len() as u32,
        },
        Err(e) => classify(e, true),
    }
}
