//! c19sim - deterministic simulation harness for property C19 of mishamsk/sas-lexer.
//! See /verif/DESIGN.md section 4. Driven by /verif/check.

mod alloc;
mod catalogue;
mod dump;
mod gen;
mod minimise;
mod outcome;
mod reference;
mod sim;
mod util;

#[cfg(not(miri))]
#[global_allocator]
static GLOBAL: alloc::JunkAlloc = alloc::JunkAlloc;

use catalogue::{Catalogue, Tier};
use gen::{scenario_from_json, scenario_to_json, GenCtx, RefTable};
use outcome::Outcome;
use reference::{clean_room, RefResult};
use sim::{run_scenario, Stats};
use std::collections::HashMap;
use std::io::Write as _;
use std::path::{Path, PathBuf};
use std::time::{Duration, Instant};
use util::{splitmix64, unesc, Json};

const EXIT_VIOLATION: i32 = 1;
const EXIT_HARNESS: i32 = 2;

struct Args {
    pos: Vec<String>,
    opt: HashMap<String, String>,
}

fn parse_args() -> Args {
    let mut pos = Vec::new();
    let mut opt = HashMap::new();
    let mut it = std::env::args().skip(1);
    while let Some(a) = it.next() {
        if let Some(k) = a.strip_prefix("--") {
            if let Some((k, v)) = k.split_once('=') {
                opt.insert(k.to_string(), v.to_string());
            } else {
                match k {
                    "reverse" | "no-minimise" | "text" | "tokens" | "coarse" => {
                        opt.insert(k.to_string(), "1".to_string());
                    }
                    _ => {
                        let v = it.next().unwrap_or_default();
                        opt.insert(k.to_string(), v);
                    }
                }
            }
        } else {
            pos.push(a);
        }
    }
    Args { pos, opt }
}

impl Args {
    fn get(&self, k: &str) -> Option<&str> {
        self.opt.get(k).map(String::as_str)
    }
    fn req(&self, k: &str) -> &str {
        self.get(k).unwrap_or_else(|| die(&format!("missing --{k}")))
    }
    fn u64(&self, k: &str, d: u64) -> u64 {
        self.get(k).map_or(d, |v| v.parse().unwrap_or_else(|_| die(&format!("bad --{k}"))))
    }
    fn tier(&self) -> Tier {
        match self.get("tier").unwrap_or("quick") {
            "thorough" => Tier::Thorough,
            _ => Tier::Quick,
        }
    }
}

fn die(msg: &str) -> ! {
    eprintln!("c19sim: harness error: {msg}");
    std::process::exit(EXIT_HARNESS)
}

fn load_catalogue(a: &Args) -> Catalogue {
    let dir = PathBuf::from(a.get("catalogue").unwrap_or("/verif/catalogue"));
    catalogue::load(&dir, a.tier()).unwrap_or_else(|e| die(&e))
}

fn load_refs(path: &str) -> RefTable {
    let text = std::fs::read_to_string(path).unwrap_or_else(|e| die(&format!("{path}: {e}")));
    let mut t = RefTable::new();
    for line in text.lines() {
        let mut f = line.split('\t');
        let (Some(id), Some(key)) = (f.next(), f.next()) else { continue };
        let key = String::from_utf8(unesc(key).unwrap_or_default()).unwrap_or_default();
        t.insert(id.to_string(), key);
    }
    t
}

fn build_name(a: &Args) -> String {
    a.get("build").unwrap_or("?").to_string()
}

// ---------------------------------------------------------------- commands

fn cmd_ref(a: &Args) {
    let cat = load_catalogue(a);
    let (pi, pn) = {
        let p = a.get("part").unwrap_or("0/1");
        let (i, n) = p.split_once('/').unwrap_or(("0", "1"));
        (i.parse::<usize>().unwrap_or(0), n.parse::<usize>().unwrap_or(1).max(1))
    };
    let reverse = a.get("reverse").is_some();
    // `--skip id=KEY,id=KEY`: sources a previous attempt of this partition could not finish
    // (KEY S = stalled, A<n> = the process died with signal/exit n); recorded, not re-run
    let skip: HashMap<String, String> = a
        .get("skip")
        .map(|s| {
            s.split(',')
                .filter(|x| !x.is_empty())
                .map(|x| match x.split_once('=') {
                    Some((i, k)) => (i.to_string(), k.to_string()),
                    None => (x.to_string(), "S".to_string()),
                })
                .collect()
        })
        .unwrap_or_default();
    let mut idx: Vec<usize> = (0..cat.sources.len()).filter(|i| i % pn == pi).collect();
    if reverse {
        idx.reverse();
    }
    // `--resume 1`: a previous attempt of this partition died half-way; keep what it wrote
    let resume = a.get("resume").is_some();
    let mut done: std::collections::HashSet<String> = std::collections::HashSet::new();
    if resume {
        if let Ok(t) = std::fs::read_to_string(a.req("out")) {
            for l in t.lines() {
                if l.matches('\t').count() >= 5 {
                    if let Some(id) = l.split('\t').next() {
                        done.insert(id.to_string());
                    }
                }
            }
        }
    }
    let file = if resume {
        std::fs::OpenOptions::new().append(true).create(true).open(a.req("out"))
    } else {
        std::fs::File::create(a.req("out"))
    };
    let mut out = std::io::BufWriter::new(file.unwrap_or_else(|e| die(&e.to_string())));
    if resume {
        // the dying process may have left a partial last line
        let _ = writeln!(out);
    }
    let t0 = Instant::now();
    let cur_path = format!("{}.cur", a.req("out"));
    for i in idx {
        let s = &cat.sources[i];
        if done.contains(&s.id) {
            continue;
        }
        if reverse && s.text.len() > 64 * 1024 {
            // the long sources are lexed in the forward pass only
            continue;
        }
        if let Some(key) = skip.get(&s.id) {
            let _ = writeln!(out, "{}\t{}\tDidNotReturn\t0\t0\t", s.id, key);
            continue;
        }
        // marker for the orchestrator: which source was in flight if this process dies
        // (stack overflow, abort) instead of returning
        let _ = out.flush();
        let _ = std::fs::write(&cur_path, &s.id);
        let r = clean_room(&s.text);
        let _ = writeln!(out, "{}", reference::line_for(s, &r));
        if matches!(r, RefResult::Stalled) {
            // the stalled thread cannot be killed: report and let the orchestrator
            // restart this partition with the source skipped
            let _ = out.flush();
            println!("STALLED {}", s.id);
            std::process::exit(3);
        }
    }
    let _ = out.flush();
    let _ = std::fs::remove_file(&cur_path);
    println!(
        "ref build={} part={}/{} sources={} wall_s={:.2}",
        build_name(a),
        pi,
        pn,
        cat.sources.len(),
        t0.elapsed().as_secs_f64()
    );
}

fn cmd_catalogue(a: &Args) {
    let cat = load_catalogue(a);
    let mut j = Json::obj();
    j.set("total", Json::u(cat.sources.len() as u64));
    let mut c = Json::obj();
    for (k, n) in &cat.classes {
        c.set(k, Json::u(*n as u64));
    }
    j.set("classes", c);
    j.set("bytes", Json::u(cat.sources.iter().map(|s| s.text.len() as u64).sum()));
    println!("{}", j.to_string_compact());
    if let Some(id) = a.get("show") {
        for s in &cat.sources {
            if s.id == id {
                println!("{}", util::esc(s.text.as_bytes()));
            }
        }
    }
    if a.get("text").is_some() {
        for s in &cat.sources {
            println!("{}\t{}", s.id, util::esc(s.text.as_bytes()));
        }
    }
}

fn run_seed(base: u64, run: u64) -> u64 {
    let mut x = base ^ run.wrapping_mul(0xA24B_AED4_963E_E407);
    splitmix64(&mut x)
}

fn write_replay(dir: &Path, build: &str, tag: &str, base_seed: u64, run: u64, m: &minimise::Minimised, unminimised: &sim::Scenario) -> PathBuf {
    let _ = std::fs::create_dir_all(dir);
    let path = dir.join(format!("C19-sim-{build}{tag}-{base_seed}-{run}.json"));
    let mut j = Json::obj();
    j.set("kind", Json::s("simulation"));
    j.set("property", Json::s("C19"));
    j.set("build", Json::s(build));
    j.set("verif_seed", Json::u(base_seed));
    j.set("run", Json::u(run));
    j.set("class", Json::s(&m.violation.class()));
    j.set(
        "expectations",
        Json::s(if m.canonical { "fresh-process" } else { "reference-pass" }),
    );
    let mut v = Json::obj();
    v.set("client", Json::u(m.violation.client as u64));
    v.set("op", if m.violation.op == usize::MAX { Json::Null } else { Json::u(m.violation.op as u64) });
    v.set("what", Json::s(m.violation.what));
    v.set("expected", Json::s(&m.violation.expected));
    v.set("got", Json::s(&m.violation.got));
    v.set("detail", Json::s(&m.violation.detail));
    j.set("violation", v);
    j.set("scenario", scenario_to_json(&m.scenario));
    j.set("minimisation", {
        let mut o = Json::obj();
        o.set("candidates_tried", Json::u(m.candidates_tried));
        o.set("ops_before", Json::u(m.original_ops as u64));
        o.set("ops_after", Json::u(m.final_ops as u64));
        o
    });
    j.set("unminimised_scenario", scenario_to_json(unminimised));
    std::fs::write(&path, j.to_string_pretty()).unwrap_or_else(|e| die(&e.to_string()));
    path
}

fn cmd_sim(a: &Args) {
    let cat = load_catalogue(a);
    let refs = load_refs(a.req("ref"));
    let mut g = GenCtx::new(&cat, &refs);
    if let Some(f) = a.get("exclude") {
        let text = std::fs::read_to_string(f).unwrap_or_else(|e| die(&format!("{f}: {e}")));
        g.exclude = text.lines().map(|l| l.trim().to_string()).filter(|l| !l.is_empty()).collect();
    }
    let base_seed = a.u64("seed", 1);
    let from = a.u64("from", 0);
    let to = a.u64("to", 100);
    let build = build_name(a);
    let replay_dir = PathBuf::from(a.get("replay-dir").unwrap_or("/verif/replays"));
    let max_viol = a.u64("max-violations", 3);
    let deadline = a.get("max-seconds").map(|s| Instant::now() + Duration::from_secs_f64(s.parse().unwrap_or(1e9)));
    let mut out = std::io::BufWriter::new(
        std::fs::File::create(a.req("out")).unwrap_or_else(|e| die(&e.to_string())),
    );
    let mut total = Stats::default();
    let mut nviol = 0u64;
    let mut harness_errors = 0u64;
    let coarse = a.get("coarse").is_some();
    let mut inconclusive_runs = 0u64;
    let t0 = Instant::now();
    let mut runs_done = 0u64;
    let mut samples_written = 0;
    for run in from..to {
        if let Some(d) = deadline {
            if Instant::now() > d {
                break;
            }
        }
        let seed = run_seed(base_seed, run);
        let mut sc = gen::generate(seed, &g);
        if coarse {
            // this tree makes concurrent calls wait for each other: never park a client
            // inside lex_program, switch at op boundaries only
            sc.strategy = sim::Strategy::RunToCompletion;
        }
        let r = run_scenario(&sc);
        runs_done += 1;
        total.add(&r.stats);
        if let Some(why) = &r.inconclusive {
            // threads of this run are blocked for good: stop this worker, report no verdict
            inconclusive_runs += 1;
            let _ = writeln!(out, "inconclusive\t{run}\t{why}");
            println!("sim-inconclusive build={build} run={run}: {why}");
            break;
        }
        if let Some(e) = &r.harness_error {
            harness_errors += 1;
            let _ = writeln!(out, "harness_error\t{run}\t{e}");
            eprintln!("c19sim: harness error in run {run}: {e}");
            break;
        }
        let _ = writeln!(
            out,
            "run\t{run}\t{}\t{}\t{}\t{}\t{}",
            r.trace.hex(),
            r.signature.hex(),
            r.outcomes_hash().hex(),
            u8::from(r.nontrivial()),
            r.violations.len()
        );
        if samples_written < 2 && r.nontrivial() && sc.clients.len() <= 3 {
            samples_written += 1;
            let mut s = Json::obj();
            s.set("run", Json::u(run));
            s.set("scenario", scenario_to_json(&sc));
            s.set("switches", Json::u(r.stats.switches));
            s.set("hook_events", Json::u(r.stats.hook_events));
            let _ = writeln!(out, "sample\t{}", s.to_string_compact());
        }
        if let Some(v) = r.violations.first() {
            nviol += 1;
            let stalled = v.what == "stall";
            let m = if a.get("no-minimise").is_some() || stalled {
                minimise::Minimised {
                    scenario: {
                        let mut s = sc.clone();
                        s.schedule = Some(r.recorded.clone());
                        s
                    },
                    violation: v.clone(),
                    candidates_tried: 0,
                    original_ops: 0,
                    final_ops: 0,
                    canonical: false,
                }
            } else {
                minimise::minimise(&sc, v, Duration::from_secs(a.u64("minimise-seconds", 20)))
            };
            let mut path = write_replay(&replay_dir, &build, "", base_seed, run, &m, &sc);
            if !stalled && !minimise::reproduces_in_fresh_process(&m.scenario, &m.violation.class()) {
                // the violation needs what earlier runs of this worker process left behind
                // (process-wide state of the lexer): the replay unit is the batch of runs
                let mut j = Json::parse(&std::fs::read_to_string(&path).unwrap_or_default()).unwrap_or_else(|_| Json::obj());
                j.set("kind", Json::s("simulation-batch"));
                j.set("from", Json::u(from));
                j.set("tier", Json::s(a.get("tier").unwrap_or("quick")));
                j.set(
                    "exclude",
                    Json::Arr(g.exclude.iter().map(|x| Json::s(x)).collect()),
                );
                j.set(
                    "note",
                    Json::s("the scenario alone does not fail in a fresh process; it fails after the earlier runs [from, run) of the same worker, which this file replays"),
                );
                let _ = std::fs::remove_file(&path);
                path = replay_dir.join(format!("C19-simbatch-{build}-{base_seed}-{from}-{run}.json"));
                let _ = std::fs::write(&path, j.to_string_pretty());
            }
            let _ = writeln!(out, "violation\t{run}\t{}\t{}", m.violation.class(), path.display());
            let _ = out.flush();
            println!(
                "sim-violation build={build} run={run} class={} expected={} got={} replay={}",
                m.violation.class(),
                m.violation.expected,
                m.violation.got,
                path.display()
            );
            if stalled {
                // threads of a stalled run cannot be reclaimed: stop this worker
                break;
            }
            if nviol >= max_viol {
                break;
            }
        }
    }
    let wall = t0.elapsed().as_secs_f64();
    let mut s = total.to_json();
    s.set("runs", Json::u(runs_done));
    s.set("wall_s", Json::Num(wall));
    s.set("violations", Json::u(nviol));
    s.set("harness_errors", Json::u(harness_errors));
    s.set("inconclusive_runs", Json::u(inconclusive_runs));
    s.set("junk_blocks_filled", Json::u(alloc::FILLED_BLOCKS.load(std::sync::atomic::Ordering::Relaxed)));
    let _ = writeln!(out, "stats\t{}", s.to_string_compact());
    let _ = out.flush();
    println!("sim build={build} runs={runs_done} [{from},{to}) violations={nviol} wall_s={wall:.2}");
    if harness_errors > 0 {
        std::process::exit(EXIT_HARNESS);
    }
    if nviol > 0 {
        std::process::exit(EXIT_VIOLATION);
    }
}

fn cmd_replay(a: &Args) {
    let path = a.pos.get(1).unwrap_or_else(|| die("replay: missing file"));
    let text = std::fs::read_to_string(path).unwrap_or_else(|e| die(&format!("{path}: {e}")));
    let j = Json::parse(&text).unwrap_or_else(|e| die(&format!("{path}: {e}")));
    let mut sc = scenario_from_json(j.get("scenario").unwrap_or_else(|| die("no scenario")))
        .unwrap_or_else(|e| die(&e));
    let class = j.get("class").and_then(Json::as_str).unwrap_or("").to_string();
    // recompute the clean-room expectation of every source in this process, before any
    // simulation has run in it
    // (each in its own fresh child process when there are few, so that process-wide state of a
    // changed lexer cannot leak from one source's reference into another's; the recorded
    // expectations are kept when the scenario has too many sources for that)
    let recorded = j.get("expectations").and_then(Json::as_str) == Some("reference-pass");
    if recorded {
        println!("note: expectations are those recorded by the reference pass of the failing check (valid for the tree it ran on)");
    }
    let many = recorded || sc.sources.len() > 64;
    for s in &mut sc.sources {
        if many {
            continue;
        }
        let key = match minimise::expect_in_child_pub(&s.text) {
            Some(k) if k != "S" => k,
            _ => match clean_room(&s.text) {
                RefResult::Done(o) => o.key(),
                RefResult::Stalled => {
                    println!("VIOLATION property=C19 replay={path}");
                    println!("  clean-room call on source {} stalled", s.id);
                    std::process::exit(EXIT_VIOLATION);
                }
            },
        };
        if key != s.expect {
            println!("note: clean-room outcome of source {} is now {} (recorded {})", s.id, key, s.expect);
        }
        s.expect = key;
    }
    let r = run_scenario(&sc);
    if let Some(e) = &r.harness_error {
        die(e);
    }
    println!("replay trace={} outcomes={}", r.trace.hex(), r.outcomes_hash().hex());
    match r.violations.iter().find(|v| class.is_empty() || v.class() == class).or(r.violations.first()) {
        Some(v) => {
            println!("VIOLATION property=C19 replay={path}");
            println!(
                "  class={} client={} op={} what={} source={} expected={} got={} {}",
                v.class(),
                v.client,
                v.op as i64,
                v.what,
                sc.sources.get(v.src).map_or("?", |s| s.id.as_str()),
                v.expected,
                v.got,
                v.detail
            );
            std::process::exit(EXIT_VIOLATION);
        }
        None => {
            println!("replay: the recorded violation no longer reproduces ({} ops executed)", r.outcomes.len());
        }
    }
}

/// Runs a scenario file as it is (recorded expectations, no recomputation) and prints its
/// violations as TSV. Used by the minimiser to judge every candidate in a fresh process.
fn cmd_eval(a: &Args) {
    let path = a.pos.get(1).unwrap_or_else(|| die("eval: missing file"));
    let text = std::fs::read_to_string(path).unwrap_or_else(|e| die(&format!("{path}: {e}")));
    let j = Json::parse(&text).unwrap_or_else(|e| die(&format!("{path}: {e}")));
    let sc = scenario_from_json(&j).unwrap_or_else(|e| die(&e));
    let r = run_scenario(&sc);
    for v in &r.violations {
        println!(
            "violation\t{}\t{}\t{}\t{}\t{}\t{}\t{}",
            v.client,
            v.op,
            v.what,
            v.src,
            v.expected,
            v.got,
            v.detail.replace(['\t', '\n'], " ")
        );
    }
    if r.violations.iter().any(|v| v.what == "stall") {
        std::process::exit(0);
    }
    println!("eval-done");
    std::process::exit(0);
}

fn cmd_lexone(a: &Args) {
    let text = if let Some(f) = a.get("file") {
        std::fs::read_to_string(f).unwrap_or_else(|e| die(&e.to_string()))
    } else if let Some(e) = a.get("esc") {
        String::from_utf8(unesc(e).unwrap_or_else(|e| die(&e))).unwrap_or_else(|e| die(&e.to_string()))
    } else {
        let cat = load_catalogue(a);
        let id = a.req("id");
        cat.sources
            .iter()
            .find(|s| s.id == id)
            .unwrap_or_else(|| die("no such id"))
            .text
            .clone()
    };
    match clean_room(&text) {
        RefResult::Stalled => println!("key\tS"),
        RefResult::Done(o) => {
            println!("key\t{}", o.key());
            if let Outcome::Panicked { msg, file, line, .. } = &o {
                println!("panic\t{} @ {}:{}", msg.lines().next().unwrap_or(""), file, line);
            }
            if a.get("tokens").is_some() {
                if let Outcome::Returned { .. } = o {
                    reference::install_budget_callback(text.len());
                    if let Ok(res) = sas_lexer::lex_program(&text) {
                        for (i, info) in res.buffer.iter_tokens_infos() {
                            let raw = res.buffer.get_token_raw_text(i, &text).ok().flatten().unwrap_or("");
                            println!(
                                "  {:3} {:<22} ch={} @{}:{} {:?} {}",
                                i.get(),
                                info.token_type().to_string(),
                                info.channel() as u8,
                                info.byte_offset().get(),
                                info.line(),
                                raw,
                                match info.payload() {
                                    sas_lexer::Payload::None => String::new(),
                                    p => format!("{p:?}"),
                                }
                            );
                        }
                        for e in &res.errors {
                            println!("  error {} @{} last_token={:?}", e.error_kind(), e.at_byte_offset(), e.last_token().map(|t| t.get()));
                        }
                    }
                }
            }
            if a.get("text").is_some() {
                if let Outcome::Returned { .. } = o {
                    reference::install_budget_callback(text.len());
                    if let Ok(res) = sas_lexer::lex_program(&text) {
                        print!("{}", dump::text_result(&text, &res));
                    }
                }
            }
        }
    }
    std::process::exit(0);
}

/// History sweep: ONE client (one OS thread, one process) lexes the whole catalogue in a
/// seeded random order; every result must equal the clean-room reference. For every ordered
/// pair (A, B) about half of the permutations have A somewhere before B, so state that leaks
/// from an earlier call - thread-local or process-wide - into a later one shows up here even
/// when the pair is too specific for the random simulation to pick.
fn cmd_sweep(a: &Args) {
    let cat = load_catalogue(a);
    let refs = load_refs(a.req("ref"));
    let exclude: std::collections::HashSet<String> = a
        .get("exclude")
        .and_then(|f| std::fs::read_to_string(f).ok())
        .map(|t| t.lines().map(|l| l.trim().to_string()).filter(|l| !l.is_empty()).collect())
        .unwrap_or_default();
    let base_seed = a.u64("seed", 1);
    let perms = a.u64("perms", 1);
    let first = a.u64("first-perm", 0);
    let build = build_name(a);
    let replay_dir = PathBuf::from(a.get("replay-dir").unwrap_or("/verif/replays"));
    let t0 = Instant::now();
    let mut total = Stats::default();
    let mut nviol = 0u64;
    let mut calls = 0u64;
    for perm in first..first + perms {
        let mut rng = util::Rng::derive(base_seed, 0x5EE9 ^ (perm << 8));
        let mut order: Vec<usize> = (0..cat.sources.len()).filter(|&i| !exclude.contains(&cat.sources[i].id)).collect();
        for i in (1..order.len()).rev() {
            let j = rng.below(i as u64 + 1) as usize;
            order.swap(i, j);
        }
        let sources: Vec<sim::SrcEntry> = order
            .iter()
            .map(|&i| sim::SrcEntry {
                id: cat.sources[i].id.clone(),
                text: cat.sources[i].text.clone(),
                expect: refs.get(&cat.sources[i].id).cloned().unwrap_or_else(|| "?".into()),
            })
            .collect();
        // odd permutations also vary the order of the first walk of each result
        let ops: Vec<sim::Op> = (0..sources.len())
            .map(|k| {
                sim::Op::Lex(sim::LexOp {
                    src: k,
                    placement: sim::Placement::Exact,
                    knobs: Default::default(),
                    shrink_at: vec![],
                    crash: None,
                    keep: false,
                    walk: if perm % 2 == 1 { rng.below(4) as u8 } else { 0 },
                })
            })
            .collect();
        let sc = sim::Scenario {
            seed: base_seed ^ perm,
            strategy: sim::Strategy::RunToCompletion,
            junk: None,
            sources,
            clients: vec![ops],
            schedule: None,
            thread_style: (perm % 4) as u8,
        };
        let r = run_scenario(&sc);
        total.add(&r.stats);
        calls += r.outcomes.len() as u64;
        if let Some(e) = &r.harness_error {
            die(e);
        }
        if let Some(v) = r.violations.first() {
            nviol += 1;
            let m = if v.what == "stall" {
                // a stalled run leaves a spinning thread behind: report as is
                let mut s = sc.clone();
                let upto = r.outcomes.len() + 1;
                s.clients[0].truncate(upto);
                minimise::Minimised { scenario: s, violation: v.clone(), candidates_tried: 0, original_ops: sc.clients[0].len(), final_ops: upto, canonical: false }
            } else {
                minimise::minimise(&sc, v, Duration::from_secs(a.u64("minimise-seconds", 60)))
            };
            // the unminimised scenario is the whole catalogue: keep only the minimised one
            let path = write_replay(&replay_dir, &build, "-sweep", base_seed, perm, &m, &m.scenario);
            println!(
                "sim-violation build={build} sweep perm={perm} class={} expected={} got={} replay={}",
                m.violation.class(),
                m.violation.expected,
                m.violation.got,
                path.display()
            );
            println!("violation\t{perm}\t{}\t{}", m.violation.class(), path.display());
            break;
        }
    }
    println!(
        "sweep build={build} perms={perms} calls={calls} violations={nviol} wall_s={:.2}",
        t0.elapsed().as_secs_f64()
    );
    if nviol > 0 {
        std::process::exit(EXIT_VIOLATION);
    }
}

/// Main-thread sweep: the MAIN thread of this process (its name, its stack, its thread id
/// are unlike those of any spawned thread) lexes the whole catalogue in a seeded order;
/// every result must equal the clean-room reference, which was computed on spawned threads.
/// With `--upto N --expect-id ID` it replays a recorded failure: same order, stop after N.
fn cmd_mainsweep(a: &Args) {
    let cat = load_catalogue(a);
    let refs = load_refs(a.req("ref"));
    let exclude: std::collections::HashSet<String> = a
        .get("exclude")
        .and_then(|f| std::fs::read_to_string(f).ok())
        .map(|t| t.lines().map(|l| l.trim().to_string()).filter(|l| !l.is_empty()).collect())
        .unwrap_or_default();
    let base_seed = a.u64("seed", 1);
    let perm = a.u64("first-perm", 0);
    let upto = a.u64("upto", u64::MAX);
    let build = build_name(a);
    let replay_dir = PathBuf::from(a.get("replay-dir").unwrap_or("/verif/replays"));
    let mut rng = util::Rng::derive(base_seed, 0x3A19 ^ (perm << 8));
    let mut order: Vec<usize> = (0..cat.sources.len())
        .filter(|&i| !exclude.contains(&cat.sources[i].id) && cat.sources[i].text.len() <= 96 * 1024)
        .collect();
    for i in (1..order.len()).rev() {
        let j = rng.below(i as u64 + 1) as usize;
        order.swap(i, j);
    }
    let t0 = Instant::now();
    let mut calls = 0u64;
    for (n, &i) in order.iter().enumerate() {
        if n as u64 >= upto {
            break;
        }
        let s = &cat.sources[i];
        reference::install_budget_callback(s.text.len());
        let (o, res) = outcome::run_lex(&s.text, &mut || {});
        drop(res);
        calls += 1;
        let key = o.key();
        let expect = refs.get(&s.id).cloned().unwrap_or_else(|| "?".into());
        if key != expect {
            // alone on the main thread of a fresh process too? then it is the thread, not history
            let alone = a.get("upto").is_none() && {
                let exe = std::env::current_exe().ok();
                exe.and_then(|e| {
                    std::process::Command::new(e)
                        .args(["mainsweep", "--build", &build, "--tier", a.get("tier").unwrap_or("quick"), "--catalogue", a.get("catalogue").unwrap_or("/verif/catalogue"), "--ref", a.req("ref"), "--seed", &base_seed.to_string(), "--first-perm", &perm.to_string(), "--only", &s.id])
                        .output()
                        .ok()
                })
                .map_or(false, |o| String::from_utf8_lossy(&o.stdout).contains("mainsweep-violation"))
            };
            let _ = std::fs::create_dir_all(&replay_dir);
            let path = replay_dir.join(format!("C19-mainthread-{build}-{base_seed}-{perm}.json"));
            let mut j = Json::obj();
            j.set("kind", Json::s("main-thread-sweep"));
            j.set("property", Json::s("C19"));
            j.set("build", Json::s(&build));
            j.set("tier", Json::s(a.get("tier").unwrap_or("quick")));
            j.set("verif_seed", Json::u(base_seed));
            j.set("perm", Json::u(perm));
            j.set("position", Json::u(n as u64));
            j.set("source_id", Json::s(&s.id));
            j.set("source_text", Json::s(&s.text));
            j.set("expected", Json::s(&expect));
            j.set("got", Json::s(&key));
            j.set("alone_on_main_thread_of_fresh_process_also_fails", Json::Bool(alone));
            j.set("exclude", Json::Arr(exclude.iter().map(|x| Json::s(x)).collect()));
            let _ = std::fs::write(&path, j.to_string_pretty());
            println!("mainsweep-violation\t{perm}\t{}\t{}\t{}", s.id, if alone { "thread" } else { "history" }, path.display());
            println!("violation\t{perm}\tmain-thread:{}\t{}", if alone { "thread-identity" } else { "history" }, path.display());
            std::process::exit(EXIT_VIOLATION);
        }
    }
    println!("mainsweep build={build} perm={perm} calls={calls} violations=0 wall_s={:.2}", t0.elapsed().as_secs_f64());
}

/// `mainsweep --only ID`: lex one catalogue source on the main thread of this (fresh) process.
fn cmd_mainsweep_only(a: &Args, id: &str) {
    let cat = load_catalogue(a);
    let refs = load_refs(a.req("ref"));
    if let Some(s) = cat.sources.iter().find(|s| s.id == id) {
        reference::install_budget_callback(s.text.len());
        let (o, _res) = outcome::run_lex(&s.text, &mut || {});
        if Some(&o.key()) != refs.get(&s.id) {
            println!("mainsweep-violation\t0\t{}\tthread\t-", s.id);
        }
    }
}

/// Batch clean-room evaluation: input lines `tag<TAB>escaped text`, output `tag<TAB>key`.
fn cmd_keys(a: &Args) {
    let text = std::fs::read_to_string(a.req("file")).unwrap_or_else(|e| die(&e.to_string()));
    for line in text.lines() {
        let Some((tag, body)) = line.split_once('\t') else { continue };
        let src = String::from_utf8(unesc(body).unwrap_or_else(|e| die(&e))).unwrap_or_else(|e| die(&e.to_string()));
        let key = match clean_room(&src) {
            RefResult::Done(o) => o.key(),
            RefResult::Stalled => {
                println!("{tag}\tS");
                // cannot continue in this process
                std::process::exit(3);
            }
        };
        println!("{tag}\t{}", util::esc(key.as_bytes()));
    }
}

fn main() {
    outcome::install_panic_hook();
    let a = parse_args();
    match a.pos.first().map(String::as_str) {
        Some("ref") => cmd_ref(&a),
        Some("sim") => cmd_sim(&a),
        Some("replay") => cmd_replay(&a),
        Some("lexone") => cmd_lexone(&a),
        Some("catalogue") => cmd_catalogue(&a),
        Some("keys") => cmd_keys(&a),
        Some("sweep") => cmd_sweep(&a),
        Some("eval") => cmd_eval(&a),
        Some("mainsweep") => match a.get("only") {
            Some(id) => cmd_mainsweep_only(&a, &id.to_string()),
            None => cmd_mainsweep(&a),
        },
        _ => {
            eprintln!("usage: c19sim ref|sim|replay|lexone|catalogue ...");
            std::process::exit(EXIT_HARNESS);
        }
    }
}
