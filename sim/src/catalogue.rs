//! The fixed workload catalogue (DESIGN.md 4.5). Nothing here depends on VERIF_SEED:
//! derived entries are produced by a generator with constant seeds, so the set of
//! sources is the same in every run, every build and every process.

use crate::util::{unesc, Rng};
use std::collections::HashSet;
use std::path::Path;

#[derive(Clone, Debug)]
pub struct Source {
    pub id: String,
    pub text: String,
}

pub struct Catalogue {
    pub sources: Vec<Source>,
    /// number of entries per class, for evidence
    pub classes: Vec<(&'static str, usize)>,
}

#[derive(Clone, Copy, Debug, PartialEq, Eq)]
pub enum Tier {
    Quick,
    Thorough,
}

const SPLICE_SEED: u64 = 0x5A5_C19_0001;
const GEN_SEED: u64 = 0x5A5_C19_0002;
const MUT_SEED: u64 = 0x5A5_C19_0003;
const UNI_SEED: u64 = 0x5A5_C19_0004;

fn load_file(path: &Path, out: &mut Vec<Source>) -> Result<(), String> {
    let text = std::fs::read_to_string(path).map_err(|e| format!("{}: {e}", path.display()))?;
    for (ln, line) in text.lines().enumerate() {
        if line.is_empty() || line.starts_with('#') {
            continue;
        }
        let (id, body) = line
            .split_once('\t')
            .ok_or_else(|| format!("{}:{}: no tab", path.display(), ln + 1))?;
        let bytes = unesc(body)?;
        let text = String::from_utf8(bytes)
            .map_err(|e| format!("{}:{}: {e}", path.display(), ln + 1))?;
        out.push(Source { id: id.to_string(), text });
    }
    Ok(())
}

pub fn load(dir: &Path, tier: Tier) -> Result<Catalogue, String> {
    let mut base = Vec::new();
    load_file(&dir.join("base.txt"), &mut base)?;
    let curated_path = dir.join("curated.txt");
    if curated_path.exists() {
        load_file(&curated_path, &mut base)?;
    }

    let mut seen: HashSet<String> = HashSet::new();
    let mut sources: Vec<Source> = Vec::new();
    let mut push = |sources: &mut Vec<Source>, id: String, text: String| -> bool {
        if seen.insert(text.clone()) {
            sources.push(Source { id, text });
            true
        } else {
            false
        }
    };
    for s in &base {
        push(&mut sources, s.id.clone(), s.text.clone());
    }
    let n_first = sources.len();

    // synthetic token/line/literal dense inputs that outgrow the capacity heuristics
    let mut n_dense = 0;
    for (k, unit) in [
        ";", "a ", "a=1;", "&a", "&&a.", "%a ", "%a;", "%a(1)", "'a''b'", "\"a\"\"b\"", "\n",
        "a\n", "1 ", "1.5e3 ", "0ffx ", "%let a=1;", "%str(%')", "x=\"&a\";", "%put a;",
        "*c;", "/*c*/", "%*c;", "%a(b=1,c=2)", "%if 1 %then a;", "é ", "日本 ",
    ]
    .iter()
    .enumerate()
    {
        for reps in [3usize, 6, 9, 17, 33, 70] {
            if push(&mut sources, format!("d{k:02}x{reps}"), unit.repeat(reps)) {
                n_dense += 1;
            }
        }
    }

    // deep / long repetitive structures: nesting beyond the expected mode-stack depth (40),
    // long runs of iterations that consume no input, many arguments
    let mut n_nested = 0;
    for (k, (open, mid, close)) in [
        ("%m(", "a", ")"),
        ("%m(%r(x)=c,", "z", ")"),
        ("%m(%r(x)=c,", "", ""),
        ("%str(", "%)", ")"),
        ("%eval(", "1", ")"),
        ("%eval((", "1", "))"),
        ("(", "a", ")"),
        ("%if 1 %then ", "x;", ""),
        ("%do;", "x;", "%end;"),
        ("%do i=1 %to ", "2;", "%end;"),
        ("\"&a", ".", "\""),
        ("%macro m;", "x;", "%mend;"),
        ("%let a=", "1", ";"),
        ("%sysfunc(cats(", "a", "))"),
        ("%m(a=", "1", ",b=2)"),
        ("%nrstr(%str(", "&a", "))"),
        ("%put ", "é", ";"),
        ("%m(é=", "ü", ")"),
    ]
    .iter()
    .enumerate()
    {
        for reps in [2usize, 5, 16, 17, 18, 33, 41, 45, 70] {
            let t = format!("{}{}{}", open.repeat(reps), mid, close.repeat(reps));
            if t.len() <= 1200 && push(&mut sources, format!("n{k:02}x{reps}"), t) {
                n_nested += 1;
            }
            // and unbalanced: the closers cut short
            let t = format!("{}{}{}", open.repeat(reps), mid, close.repeat(reps / 2));
            if t.len() <= 1200 && push(&mut sources, format!("n{k:02}h{reps}"), t) {
                n_nested += 1;
            }
        }
    }

    // one construct with many repeated elements (arguments, operands, statements)
    for (k, (head, unit, tail)) in [
        ("%m(", "%r(x)=c,", ")"),
        ("%m(", "%r(x)=c,", "z)"),
        ("%m(", "a=1,", "b)"),
        ("%m(", "&v=1,", ")"),
        ("%m(", "%r(x),", ")"),
        ("%m(", "%r,", ")"),
        ("%m(", "(a),", ")"),
        ("%m(", "'s',", "\"t\")"),
        ("%m(", "a b,", ")"),
        ("%m(", "é=ü,", ")"),
        ("%m(", "a /*c*/ = 1 ,", ")"),
        ("%macro m(", "a=1,", "b);%mend;"),
        ("%sysfunc(cats(", "a,", "b))"),
        ("%eval(", "1+", "1)"),
        ("%sysevalf(", "1.5*", "2)"),
        ("%let a=", "&b", ";"),
        ("%let a=", "&&b&c", ";"),
        ("%put ", "%r(x) ", ";"),
        ("%if ", "1 and ", "1 %then x;"),
        ("data;", "x=1;", "run;"),
        ("x=", "'a'||", "'b';"),
        ("%local ", "a ", ";"),
        ("%scan(", "a ", ",1)"),
        ("%str(", "%%", ")"),
        ("%nrstr(", "&a%(", ")"),
        ("\"", "&a ", "\""),
        ("\"", "%r(x) ", "\""),
        ("'", "''", "'"),
        ("\"", "\"\"", "\""),
        ("", "%r(x)", ""),
        ("", "%r ", "x"),
        ("", "&a.", ""),
        ("data &&lib", "&i", "..final;"),
        ("title \"&&path", "&i", "..csv\";"),
        ("%m(ds=&&&&a", "&i", "...x)"),
        ("&&a", "&b.", "..c"),
        ("", "a:", ""),
        ("", "%a:", ""),
        ("", "%do;%end;", ""),
        ("", "/**/", ""),
        ("", "%*;", ""),
        ("", "*;", ""),
    ]
    .iter()
    .enumerate()
    {
        for reps in [2usize, 5, 16, 17, 18, 33, 41, 70] {
            let t = format!("{}{}{}", head, unit.repeat(reps), tail);
            if t.len() <= 1200 && push(&mut sources, format!("r{k:02}x{reps}"), t) {
                n_nested += 1;
            }
        }
    }

    // runs of blanks with one unusual character in them (control characters, Unicode spaces,
    // BOM, NEL ...), in several contexts: anything that scans whitespace in blocks or by class
    let mut n_blank = 0;
    let odd: [&str; 18] = [
        "\0", "\u{1}", "\u{8}", "\u{b}", "\u{c}", "\u{e}", "\u{1a}", "\u{1f}", "\u{7f}", "\u{85}",
        "\u{a0}", "\u{2003}", "\u{3000}", "\u{feff}", "\t", "\r", "\u{2028}", "\u{1680}",
    ];
    for (ci, c) in odd.iter().enumerate() {
        for (xi, (pre, post)) in [("x", "y;"), ("%let a", "=1;"), ("%m(", "a)"), ("%put", "b;"), ("%if 1", "%then x;")]
            .iter()
            .enumerate()
        {
            for (a, b) in [(1usize, 16usize), (16, 1), (17, 17), (3, 40), (0, 20), (33, 0)] {
                let t = format!("{pre}{}{c}{}{post}", " ".repeat(a), " ".repeat(b));
                if push(&mut sources, format!("b{ci:02}{xi}:{a}-{b}"), t) {
                    n_blank += 1;
                }
            }
        }
    }

    // near misses of every keyword: a cache with an imprecise key (truncated, hashed, case- or
    // length-only) confuses these with the keyword once both have been seen in one process
    let mut n_near = 0;
    for s in &base {
        // every base source that is a single word: the keyword spellings (ids k..) and the
        // words that occur as test literals (`eq`, `ne`, `data` ... - the snapshot tool
        // de-duplicates by text, so the mnemonic operators carry a t.. id)
        if s.text.len() < 2 || s.text.len() > 24 {
            continue;
        }
        let (pct, word) = match s.text.strip_prefix('%') {
            Some(w) => ("%", w),
            None => ("", s.text.as_str()),
        };
        if !word.chars().all(|c| c.is_ascii_alphanumeric() || c == '_') {
            continue;
        }
        let up = word.to_ascii_uppercase();
        let mut vars: Vec<String> = vec![
            format!("my{word}"),
            format!("xx{}", &word[1.min(word.len())..]),
            format!("{word}xx"),
            format!("{word}1"),
            format!("_{word}"),
            format!("{}z", &word[..word.len() - 1]),
            format!("z{}", &word[1.min(word.len())..]),
            word[1.min(word.len())..].to_string(),
            word[..word.len() - 1].to_string(),
            format!("{word}{word}"),
            up.clone(),
        ];
        vars.push(format!("{word}é"));
        vars.push(format!("{word}中文"));
        vars.push(format!("é{word}"));
        if word.len() > 3 {
            let mid = word.len() / 2;
            vars.push(format!("{}q{}", &word[..mid], &word[mid + 1..]));
            vars.push(format!("{}{}", &word[..mid], &word[mid + 1..]));
        }
        for (k, v) in vars.iter().enumerate() {
            if v.is_empty() {
                continue;
            }
            let t = if pct.is_empty() { format!("{v} {word};") } else { format!("%{v}(a) %{word} b;") };
            if push(&mut sources, format!("w{}:{k}", s.id), format!("{pct}{v}")) {
                n_near += 1;
            }
            if k < 4 && push(&mut sources, format!("w{}:{k}b", s.id), t) {
                n_near += 1;
            }
            // plain words (the mnemonic operators are among them) as operands of macro expressions
            if pct.is_empty() && (k < 4 || k >= 11) {
                for (c, ctx) in [("%if &a ", " %then x;"), ("%eval(&a ", ")"), ("%if &s=", " %then x;"), ("%sysevalf(1 ", " 2)")].iter().enumerate() {
                    if push(&mut sources, format!("w{}:{k}o{c}", s.id), format!("{}{v}{}", ctx.0, ctx.1)) {
                        n_near += 1;
                    }
                }
            }
            // macro keyword variants also where a macro expression may meet them
            if !pct.is_empty() && (k < 4 || k >= 11) {
                for (c, ctx) in [("%if 1 %", " x;"), ("%eval(5 %", ")"), ("%do i=1 %to 10 %", ";")].iter().enumerate() {
                    if push(&mut sources, format!("w{}:{k}e{c}", s.id), format!("{}{v}{}", ctx.0, ctx.1)) {
                        n_near += 1;
                    }
                }
            }
        }
    }

    // base sources with some ASCII letters/digits replaced by multi-byte characters
    let mut rng = Rng::new(UNI_SEED);
    let mut n_uni = 0;
    for s in &base {
        if s.text.is_empty() || s.text.len() > 600 {
            continue;
        }
        for v in 0..2 {
            let mut t = String::with_capacity(s.text.len() + 8);
            let mut changed = false;
            for c in s.text.chars() {
                if c.is_ascii_alphanumeric() && rng.chance(1, 6) {
                    t.push_str(*rng.pick(UNI_CHARS));
                    changed = true;
                } else if c == ' ' && rng.chance(1, 10) {
                    t.push('\u{a0}');
                    changed = true;
                } else {
                    t.push(c);
                }
            }
            if changed && push(&mut sources, format!("u{}:{v}", s.id), t) {
                n_uni += 1;
            }
        }
    }

    // every char-boundary prefix of the base set
    let mut n_prefix = 0;
    for s in &base {
        // the three sample files are long: only line-granular prefixes for those
        let coarse = s.text.len() > 600;
        for (i, c) in s.text.char_indices() {
            if i == 0 {
                continue;
            }
            if coarse && c != '\n' && i % 37 != 0 {
                continue;
            }
            if push(&mut sources, format!("p{}:{}", s.id, i), s.text[..i].to_string()) {
                n_prefix += 1;
            }
        }
    }

    // fixed-seed splices of base strings
    let n_splice_target = match tier {
        Tier::Quick => 6_000,
        Tier::Thorough => 120_000,
    };
    let mut rng = Rng::new(SPLICE_SEED);
    let short: Vec<&Source> = base.iter().filter(|s| !s.text.is_empty() && s.text.len() <= 600).collect();
    let mut n_splice = 0;
    for k in 0..n_splice_target {
        let parts = rng.range(2, 4);
        let mut t = String::new();
        for p in 0..parts {
            let s = &rng.pick(&short).text;
            let (a, b) = random_slice(&mut rng, s);
            if p > 0 {
                t.push_str(*rng.pick(&["", "", " ", ";", "\n", "(", ")", ",", "="]));
            }
            t.push_str(&s[a..b]);
            if t.len() > 400 {
                break;
            }
        }
        if push(&mut sources, format!("x{k:06}"), t) {
            n_splice += 1;
        }
    }

    // grammar-based programs
    let n_gen_target = match tier {
        Tier::Quick => 3_000,
        Tier::Thorough => 60_000,
    };
    let mut rng = Rng::new(GEN_SEED);
    let mut n_gen = 0;
    let mut gens: Vec<String> = Vec::new();
    for k in 0..n_gen_target {
        let mut g = Gen { rng: &mut rng, budget: 60 };
        let t = g.program();
        if t.len() <= 600 {
            gens.push(t.clone());
            if push(&mut sources, format!("g{k:06}"), t) {
                n_gen += 1;
            }
        }
    }

    // every char-boundary prefix of the first generated programs (end of input in every state)
    let n_gen_prefix_of = match tier {
        Tier::Quick => 150,
        Tier::Thorough => 2_500,
    };
    let mut n_gen_prefix = 0;
    for (k, gsrc) in gens.iter().take(n_gen_prefix_of).enumerate() {
        for (i, _) in gsrc.char_indices() {
            if i == 0 {
                continue;
            }
            if push(&mut sources, format!("q{k:05}:{i}"), gsrc[..i].to_string()) {
                n_gen_prefix += 1;
            }
        }
    }

    // mutated programs: a character deleted, duplicated or replaced; truncated
    let mut rng = Rng::new(MUT_SEED);
    let n_mut_target = n_gen_target;
    let mut n_mut = 0;
    if !gens.is_empty() {
        for k in 0..n_mut_target {
            let g = rng.pick(&gens).clone();
            let t = mutate(&mut rng, &g);
            if push(&mut sources, format!("m{k:06}"), t) {
                n_mut += 1;
            }
        }
    }

    // medium: error- / token- / literal-dense sources of a few KB (still used by the simulator)
    let mut n_medium = 0;
    {
        // many DISTINCT escaped literals, each occurring twice (de-duplication, interning)
        let mut t = String::new();
        for round in 0..2 {
            for i in 0..150 {
                let _ = round;
                t.push_str(&format!("v='O''Brien #{i}'; %let a{i}=%str(it%'s no. {i}); %put \"say \"\"{i}\"\" twice\";\n"));
            }
        }
        if push(&mut sources, "M90".to_string(), t) {
            n_medium += 1;
        }
        // very deep parenthesis nesting in a macro call argument value, a %let value, a macro definition default
        for (k, (head, tail)) in [("%m(a=", ", b=1);"), ("%let u=%upcase(", ");"), ("%macro m(p=", ""), ("x=", ";"), ("%eval(", ")")].iter().enumerate() {
            for depth in [300usize, 3000] {
                let t = format!("{head}{}x{}{tail}", "(".repeat(depth), if tail.is_empty() { String::new() } else { ")".repeat(depth) });
                if push(&mut sources, format!("M8{k}d{depth}"), t) {
                    n_medium += 1;
                }
            }
        }
        // a 200-line program and close variants of it (same line count, small local differences)
        let lines: Vec<String> = (0..200)
            .map(|i| match i % 5 {
                0 => format!("data step{i}; set lib.t{i};"),
                1 => format!("  x{i} = y + {i}; /* c{i} */"),
                2 => format!("  if x{i} > {} then z = 'v{i}';", i * 7),
                3 => "run;".to_string(),
                _ => format!("%put note {i};"),
            })
            .collect();
        let join = |v: &Vec<String>| v.join("\n") + "\n";
        let mut v1 = lines.clone();
        v1.swap(51, 52);
        let mut v2 = lines.clone();
        v2[101] = "  x101 = y + 101;".to_string();
        v2[102] = format!("/* c101 */ {}", lines[102]);
        let mut v3 = lines.clone();
        v3[150] = "data step150;".to_string();
        v3[151] = format!(" set lib.t150; {}", lines[151].trim_start());
        for (k, v) in [&lines, &v1, &v2, &v3].iter().enumerate() {
            if push(&mut sources, format!("M7{k}"), join(v)) {
                n_medium += 1;
            }
        }
    }
    for (k, (head, unit, reps, tail)) in [
        ("", "%let ;", 1500usize, ""),
        ("", "%m(a", 1200, ""),
        ("", "'a''b'x ", 900, ""),
        ("%m(", "a=1,", 2000, "b)"),
        ("", "%do i=;", 1100, ""),
        ("", "1e ", 1500, ""),
        ("", "%eval(1+", 1200, ""),
        ("x=", "'a''b'||", 1500, "'c';"),
        ("", "&a&&b.", 1500, ""),
        ("", "%local /%put a;", 400, ""),
        ("", "é ü ", 2000, ""),
        ("", "a\n", 3000, ""),
        ("data a; input x $ y; datalines;\n", "ab 1\n", 140, ";\nrun;"),
        ("data b; input r $char40.; cards;\n", "some longer record here 42\n", 60, ";\nproc print; run;"),
        ("data c; input z $; datalines4;\n", "zá;ö 7\n", 120, ";;;;\nrun;"),
        ("data d; infile datalines; input q; lines;\n", "1\n\n22\n333\n", 90, ";"),
    ]
    .iter()
    .enumerate()
    {
        let t = format!("{}{}{}", head, unit.repeat(*reps), tail);
        if push(&mut sources, format!("M{k:02}"), t) {
            n_medium += 1;
        }
    }

    // large: 33-50 KB well-formed programs (anything with a size threshold around 32 KiB); used
    // by the simulator at low weight with coarse schedules
    let mut n_large = 0;
    for (k, (unit, reps)) in [
        ("data a; x=1; run;\n", 2000usize),
        ("%let a=&b;\n", 3200),
        ("%m(a=1,b=2);\n", 2700),
        ("proc sort data=a; by x; run;\n", 1200),
        ("x='it''s'; y=\"&z\";\n", 1800),
        ("%if &a %then %do; %put b; %end;\n", 1100),
        ("data big; set a; y=x*2; run;\n", 2500),
        ("%put &a &&b&c 'q' \"&d\";\n", 3500),
    ]
    .iter()
    .enumerate()
    {
        if push(&mut sources, format!("G{k:02}"), unit.repeat(*reps)) {
            n_large += 1;
        }
    }

    // long: 0.1 - 1.5 MB (capacity heuristics at scale, u32 arithmetic, recursion depth,
    // anything capped or sized by the source length). Reference passes and sweeps only.
    let mut n_long = 0;
    for (k, (head, unit, reps, tail)) in [
        ("%let a=", "/*c*/ ", 20_000usize, "1;"),
        ("", "x=1;\n", 220_000, ""),
        ("/*", "c", 1_100_000, "*/ x=1; %put é;"),
        ("data a; input x; datalines;\n", "1 2 3\n", 200_000, ";\nrun;"),
        ("%m(", "a,", 100_000, "b)"),
        ("'", "a''", 100_000, "'"),
        ("", "é", 300_000, ""),
        ("%macro m; ", "%if &a %then %do; x=1; %end;\n", 20_000, "%mend;"),
        ("", "\n", 500_000, ""),
        ("", "&a", 100_000, ""),
        ("", "a ", 700_000, "%put done;"),
        ("x='", "a", 1_100_000, "'; y=1;"),
        ("%put ", "b", 1_100_000, "; %let z=2;"),
        ("%m(a , /*c*/ b = ", "/*c*/ ", 60_000, ")"),
        ("%let ", "/*c*/ ", 60_000, "a=1;"),
        ("%m", " \n", 150_000, "(1)"),
    ]
    .iter()
    .enumerate()
    {
        // the quick tier keeps six of them
        if tier == Tier::Quick && ![0usize, 1, 2, 6, 11, 12, 13, 14].contains(&k) {
            continue;
        }
        let t = format!("{}{}{}", head, unit.repeat(*reps), tail);
        if push(&mut sources, format!("L{k:02}"), t) {
            n_long += 1;
        }
    }

    Ok(Catalogue {
        sources,
        classes: vec![
            ("base+curated", n_first),
            ("dense", n_dense),
            ("nested+repeated", n_nested),
            ("blank-runs", n_blank),
            ("keyword-near-misses", n_near),
            ("unicodified", n_uni),
            ("prefixes", n_prefix),
            ("splices", n_splice),
            ("generated", n_gen),
            ("generated-prefixes", n_gen_prefix),
            ("mutated", n_mut),
            ("medium", n_medium),
            ("large", n_large),
            ("long", n_long),
        ],
    })
}

fn char_bounds(s: &str) -> Vec<usize> {
    let mut v: Vec<usize> = s.char_indices().map(|(i, _)| i).collect();
    v.push(s.len());
    v
}

fn random_slice(rng: &mut Rng, s: &str) -> (usize, usize) {
    let b = char_bounds(s);
    match rng.below(4) {
        0 => (0, s.len()),
        1 => (0, b[rng.below(b.len() as u64) as usize]),
        2 => (b[rng.below(b.len() as u64) as usize], s.len()),
        _ => {
            let i = rng.below(b.len() as u64) as usize;
            let j = rng.below(b.len() as u64) as usize;
            (b[i.min(j)], b[i.max(j)])
        }
    }
}

// includes the first and last code point of every UTF-8 length class and characters whose
// encoding contains the boundary continuation bytes 0x80 and 0xBF
const UNI_CHARS: &[&str] = &[
    "é", "ü", "ж", "日", "🔥", "\u{a0}", "ß", "Ω", "\u{2028}", "ǅ", "¿", "ÿ", "\u{80}", "\u{7ff}", "\u{800}",
    "\u{fffd}", "\u{ffff}", "\u{10000}", "😿", "\u{10ffff}", "₿",
];

const MUT_CHARS: &[&str] = &[
    "\0", "\u{1}", "\u{1a}", "\u{7f}", "\u{b}", "\u{c}", "\u{85}", "\u{2028}", "                ",
    "+", "-", "d", "b", "n", "t", "dt", "x", "0", "9", "f", "_", "$", "#", "@", "`", "^", "~", "!", "|", "<", ">", "{", "}", "[", "]", ":", "?", "\t", "\r\n",
    ";", "%", "&", "(", ")", ",", "=", "'", "\"", "*", "/", ".", "\n", " ", "%*", "/*", "*/",
    "%(", "%)", "%str(", "%do", "%end", "%then", "%m", "&v", "é", "\u{feff}", "4", "x", "e",
];

fn mutate(rng: &mut Rng, s: &str) -> String {
    let mut t = s.to_string();
    let n = rng.range(1, 3);
    for _ in 0..n {
        let b = char_bounds(&t);
        if b.len() < 2 {
            break;
        }
        let i = rng.below((b.len() - 1) as u64) as usize;
        let (a, e) = (b[i], b[i + 1]);
        match rng.below(5) {
            0 => t.replace_range(a..e, ""),
            1 => {
                let c = t[a..e].to_string();
                t.insert_str(a, &c);
            }
            2 => t.replace_range(a..e, *rng.pick(MUT_CHARS)),
            3 => t.insert_str(a, *rng.pick(MUT_CHARS)),
            _ => t.truncate(a),
        }
    }
    t
}

// ---------------------------------------------------------------- generator

struct Gen<'a> {
    rng: &'a mut Rng,
    budget: i32,
}

const NAMES: &[&str] = &[
    "a", "b", "x1", "_v", "var", "ds", "mv", "é", "name", "i", "a_rather_long_name_17",
    "переменная", "名前", "abcdefghijklmnopqrstuvwxyz0123456789_long", "eq", "x", "ÿ¿", "año",
];
const MACROS: &[&str] = &[
    "m", "mac", "util", "do_it", "m2", "a_long_macro_name_over_14", "макрос", "sixteen_chars_xx",
    "abcdefghijklmnopqrstuvwxyz0123456_33",
];
const OPS: &[&str] = &[
    "+", "-", "*", "/", "**", "=", "<", ">", "<=", ">=", "~=", "^=", "eq", "ne", "lt", "gt",
    "le", "ge", "and", "or", "in", "#", "||", "!!", "<>", "><", "|", "&",
];
const WS: &[&str] = &[" ", " ", " ", "\n", "  ", "\t", " /*c*/ ", "\n  "];

impl Gen<'_> {
    fn pick(&mut self, xs: &[&'static str]) -> &'static str {
        xs[self.rng.below(xs.len() as u64) as usize]
    }
    fn ws(&mut self) -> &'static str {
        self.pick(WS)
    }
    fn ows(&mut self) -> &'static str {
        if self.rng.chance(1, 3) {
            self.pick(WS)
        } else {
            ""
        }
    }
    fn spend(&mut self) -> bool {
        self.budget -= 1;
        self.budget > 0
    }

    fn program(&mut self) -> String {
        let mut s = String::new();
        if self.rng.chance(1, 40) {
            s.push('\u{feff}');
        }
        let n = self.rng.range(1, 5);
        for _ in 0..n {
            s.push_str(&self.stmt(0));
            s.push_str(self.ows());
        }
        s
    }

    fn num(&mut self) -> String {
        match self.rng.below(10) {
            0 => "0".into(),
            1 => "1".into(),
            2 => "42".into(),
            3 => "1.5".into(),
            4 => ".5".into(),
            5 => "1e3".into(),
            6 => "1.2E-3".into(),
            7 => "0ffx".into(),
            8 => self
                .pick(&[
                    "18446744073709551615",
                    "18446744073709551616",
                    "99999999999999999999",
                    "9223372036854775808",
                    "10000000000000000000",
                    "123456789012345678901",
                    "9007199254740993",
                    "4294967296",
                    "1234567890.1234567890123",
                    "00000000000000000001",
                    "2e19",
                    "5E19",
                    "20e18",
                    "1844674407371e7",
                    "18446744073709551616e0",
                    "1e19",
                    "1e20",
                    "9e18",
                    "9223372036854775808e1",
                    "9007199254740993e0",
                    "1e308",
                    "2e308",
                    "5e-324",
                ])
                .to_string(),
            _ => format!("{}", self.rng.below(100_000)),
        }
    }

    fn strlit(&mut self, depth: u32) -> String {
        match self.rng.below(8) {
            0 => self.pick(&["'abc'", "'¿Qué tal?'", "'ÿ₿'", "\"\u{fffd}😿\"", "'日本語'"]).to_string(),
            1 => "'it''s'".into(),
            2 => "\"plain\"".into(),
            3 => format!("\"v=&{}.\"", self.pick(NAMES)),
            4 if depth < 3 && self.spend() => format!("\"c: {} end\"", self.mcall(depth + 1)),
            5 => "'01jan2020'd".into(),
            6 => "\"say \"\"hi\"\"\"".into(),
            _ => "'4142'x".into(),
        }
    }

    fn mvar(&mut self) -> String {
        match self.rng.below(5) {
            0 => format!("&{}", self.pick(NAMES)),
            1 => format!("&{}.", self.pick(NAMES)),
            2 => format!("&&{}&{}", self.pick(NAMES), self.pick(NAMES)),
            3 => format!("&&&{}", self.pick(NAMES)),
            _ => format!("&{}&{}", self.pick(NAMES), self.pick(NAMES)),
        }
    }

    /// free macro text (argument values, %let values ...)
    fn mtext(&mut self, depth: u32) -> String {
        let n = self.rng.range(1, 3);
        let mut s = String::new();
        for k in 0..n {
            if k > 0 {
                s.push_str(self.ows());
            }
            let piece = match self.rng.below(12) {
                0 | 1 => self.pick(NAMES).to_string(),
                2 => self.num(),
                3 => self.mvar(),
                4 => self.strlit(depth),
                5 if depth < 3 && self.spend() => self.mcall(depth + 1),
                6 if depth < 3 && self.spend() => format!("({})", self.mtext(depth + 1)),
                7 if depth < 3 && self.spend() => self.builtin(depth + 1),
                8 => format!("{}.{}", self.pick(NAMES), self.pick(NAMES)),
                9 => "/*c*/".to_string(),
                10 => format!("{}{}", self.pick(NAMES), self.mvar()),
                _ => self.pick(NAMES).to_string(),
            };
            s.push_str(&piece);
        }
        s
    }

    fn mexpr(&mut self, depth: u32) -> String {
        let mut s = self.moperand(depth);
        let n = self.rng.below(3);
        for _ in 0..n {
            s.push_str(self.ws());
            s.push_str(self.pick(OPS));
            s.push_str(self.ws());
            s.push_str(&self.moperand(depth));
        }
        s
    }

    fn moperand(&mut self, depth: u32) -> String {
        match self.rng.below(10) {
            0 | 1 => self.num(),
            2 => self.mvar(),
            3 if depth < 3 && self.spend() => format!("({})", self.mexpr(depth + 1)),
            4 if depth < 3 && self.spend() => self.builtin(depth + 1),
            5 if depth < 3 && self.spend() => self.mcall(depth + 1),
            6 => self.pick(NAMES).to_string(),
            7 => format!("not {}", self.num()),
            8 if depth < 3 && self.spend() => format!("{}_{}", self.pick(NAMES), self.mcall(depth + 1)),
            _ => self.num(),
        }
    }

    fn builtin(&mut self, depth: u32) -> String {
        match self.rng.below(14) {
            0 => format!("%eval({})", self.mexpr(depth)),
            1 => format!("%sysevalf({}{})", self.mexpr(depth), self.pick(&["", ",boolean", ", ceil"])),
            2 => format!("%str({})", self.strtext(depth)),
            3 => format!("%nrstr({})", self.strtext(depth)),
            4 => format!("%scan({},{})", self.mtext(depth), self.mexpr(depth)),
            5 => format!("%substr({},{},{})", self.mtext(depth), self.mexpr(depth), self.mexpr(depth)),
            6 => format!("%upcase({})", self.mtext(depth)),
            7 => format!("%sysfunc({}({}){})", self.pick(&["cats", "today", "putn", "ifc"]), self.mtext(depth), self.pick(&["", ",date9.", ", best."])),
            8 => format!("%quote({})", self.mtext(depth)),
            9 => format!("%index({},{})", self.mtext(depth), self.mtext(depth)),
            10 => format!("%length({})", self.mtext(depth)),
            11 => format!("%superq({})", self.pick(NAMES)),
            12 => format!("%symexist({})", self.pick(NAMES)),
            _ => format!("%bquote({})", self.mtext(depth)),
        }
    }

    fn strtext(&mut self, depth: u32) -> String {
        let n = self.rng.range(1, 4);
        let mut s = String::new();
        for _ in 0..n {
            let piece = match self.rng.below(12) {
                0 => "%'".to_string(),
                1 => "%\"".to_string(),
                2 => "%%".to_string(),
                3 => "%(".to_string(),
                4 => "%)".to_string(),
                5 => ";".to_string(),
                6 => ",".to_string(),
                7 => self.mvar(),
                8 if depth < 3 && self.spend() => format!("({})", self.strtext(depth + 1)),
                9 if depth < 3 && self.spend() => self.mcall(depth + 1),
                10 => " ".to_string(),
                _ => self.pick(NAMES).to_string(),
            };
            s.push_str(&piece);
        }
        s
    }

    fn mcall(&mut self, depth: u32) -> String {
        let name = self.pick(MACROS);
        match self.rng.below(5) {
            0 => format!("%{name}"),
            1 => format!("%{name}()"),
            _ => {
                let n = self.rng.range(1, 3);
                let mut s = format!("%{name}{}(", self.ows());
                for k in 0..n {
                    if k > 0 {
                        s.push(',');
                        s.push_str(self.ows());
                    }
                    if self.rng.chance(1, 3) {
                        s.push_str(self.pick(NAMES));
                        s.push_str(self.ows());
                        s.push('=');
                    }
                    if self.rng.chance(5, 6) {
                        s.push_str(&self.mtext(depth));
                    }
                }
                s.push(')');
                s
            }
        }
    }

    fn open_expr(&mut self, depth: u32) -> String {
        let n = self.rng.range(1, 3);
        let mut s = String::new();
        for k in 0..n {
            if k > 0 {
                s.push_str(self.ows());
                s.push_str(self.pick(OPS));
                s.push_str(self.ows());
            }
            let piece = match self.rng.below(8) {
                0 => self.num(),
                1 => self.strlit(depth),
                2 => self.mvar(),
                3 if depth < 3 && self.spend() => self.mcall(depth + 1),
                4 => format!("{}({})", self.pick(&["sum", "put", "input", "cats"]), self.pick(NAMES)),
                5 => format!("{}.{}", self.pick(NAMES), self.pick(NAMES)),
                6 => format!("{} $char10.", self.pick(NAMES)),
                _ => self.pick(NAMES).to_string(),
            };
            s.push_str(&piece);
        }
        s
    }

    fn body(&mut self, depth: u32) -> String {
        let n = self.rng.below(3);
        let mut s = String::new();
        for _ in 0..n {
            if !self.spend() {
                break;
            }
            s.push_str(self.ws());
            s.push_str(&self.stmt(depth + 1));
        }
        s.push_str(self.ws());
        s
    }

    fn stmt(&mut self, depth: u32) -> String {
        if !self.spend() || depth > 3 {
            return format!("{}={};", self.pick(NAMES), self.num());
        }
        match self.rng.below(30) {
            0 | 1 => format!("{}{}={}{};", self.pick(NAMES), self.ows(), self.ows(), self.open_expr(depth)),
            2 => format!("data {};{}set {};{}run;", self.pick(NAMES), self.ws(), self.pick(NAMES), self.ws()),
            3 => format!("proc {} data={};{}run;", self.pick(&["print", "sort", "sql"]), self.pick(NAMES), self.ws()),
            4 => format!("%let {}{}={};", self.pick(NAMES), self.ows(), self.mtext(depth)),
            5 => format!("%let {}&{}={};", self.pick(NAMES), self.pick(NAMES), self.mtext(depth)),
            6 => format!("%put {};", self.mtext(depth)),
            7 => format!("%{} {} {};", self.pick(&["local", "global"]), self.pick(NAMES), self.pick(NAMES)),
            8 if self.rng.chance(1, 4) => format!("%{} /{}", self.pick(&["local", "global"]), self.stmt(depth + 1)),
            8 => format!("%{} / readonly {}={};", self.pick(&["local", "global"]), self.pick(NAMES), self.mtext(depth)),
            9 => format!("%if {} %then {}", self.mexpr(depth), self.stmt(depth + 1)),
            10 => format!(
                "%if {} %then %do;{}%end;{}%else %do;{}%end;",
                self.mexpr(depth),
                self.body(depth),
                self.ows(),
                self.body(depth)
            ),
            11 => format!("%do;{}%end;", self.body(depth)),
            12 => format!(
                "%do {}={} %to {}{};{}%end;",
                self.pick(NAMES),
                self.mexpr(depth),
                self.mexpr(depth),
                if self.rng.chance(1, 2) { format!(" %by {}", self.mexpr(depth)) } else { String::new() },
                self.body(depth)
            ),
            13 => format!("%do %while({});{}%end;", self.mexpr(depth), self.body(depth)),
            14 => format!("%do %until({});{}%end;", self.mexpr(depth), self.body(depth)),
            15 => {
                let name = self.pick(MACROS);
                let args = match self.rng.below(4) {
                    0 => String::new(),
                    1 => "()".to_string(),
                    2 => format!("({}, {}={})", self.pick(NAMES), self.pick(NAMES), self.mtext(depth)),
                    _ => format!("({})", self.pick(NAMES)),
                };
                let opts = if self.rng.chance(1, 4) { " / minoperator store des='d'" } else { "" };
                format!("%macro {name}{args}{opts};{}%mend{};", self.body(depth), self.pick(&["", " m"]))
            }
            16 | 17 => format!("{};", self.mcall(depth)),
            18 => self.mcall(depth),
            19 => format!(
                "{}{};\n{}\n{}",
                self.pick(&["", "data a; input x; ", "infile "]),
                self.pick(&["datalines", "cards", "lines", "DataLines"]),
                self.pick(&["1 2 3\nabc;def", "Jürgen München 42", "", "a\n\nb", "日本 1\n🔥 2"]),
                self.pick(&[";", ";", "", ";é", "; x=1;"])
            ),
            20 => format!(
                "{}4;\n{}\n{}",
                self.pick(&["datalines", "cards", "lines"]),
                self.pick(&["ab;c", "é;ü;;;", "", "1\n2"]),
                self.pick(&[";;;;", ";;;;", ";;;", ";;", ";", "", ";;;;é", ";é", ";;;é", ";;;; y=2;", ";\n", ";;\n", ";;;\n", ";;;;\n"])
            ),
            21 => format!("* comment {};", self.pick(NAMES)),
            22 => format!("/* c {} */", self.pick(NAMES)),
            23 => format!("%* mc {};", self.pick(NAMES)),
            24 => format!("%goto {};", self.pick(NAMES)),
            25 => format!("%{}: {}", self.pick(NAMES), self.stmt(depth + 1)),
            26 => format!("{} {};", self.builtin(depth), self.pick(NAMES)),
            27 => format!("x = {};", self.strlit(depth)),
            28 => format!("%{}({});", self.pick(&["sysexec", "syscall ranuni", "return", "abort"]), self.mtext(depth)),
            _ => format!("%include {};", self.strlit(depth)),
        }
    }
}
