#!/usr/bin/env python3
"""Build a 'shadow' copy of the sas-lexer crate whose synchronisation primitives, threads and
thread-locals are shuttle's, so that shuttle's seeded schedulers own every interleaving at
every lock / atomic / once / thread-local access a change to the lexer may introduce.

The unchanged tree contains no such primitive (except the cfg-gated verification hook's
thread_local), so the rewrite is the identity there. Nothing in /repo is touched: sources are
copied to <dst>/src, rewritten textually, and given a stand-alone manifest (workspace
inheritance resolved, shuttle and the shims crate added).

usage: shadow.py <repo> <dst> <shims crate dir>
"""
import os
import re
import shutil
import sys

try:
    import tomllib
except ImportError:  # pragma: no cover
    tomllib = None


def split_top(s):
    """Split a use-group body on top-level commas."""
    out, depth, cur = [], 0, []
    for ch in s:
        if ch == "{":
            depth += 1
        elif ch == "}":
            depth -= 1
        if ch == "," and depth == 0:
            out.append("".join(cur).strip())
            cur = []
        else:
            cur.append(ch)
    tail = "".join(cur).strip()
    if tail:
        out.append(tail)
    return [x for x in out if x]


def expand_use_groups(text):
    """`use std::{a::b, sync::{C, D}};` -> one `use` per leaf (only for std/core roots)."""
    pat = re.compile(r"(?m)^(\s*)((?:pub(?:\([a-z]+\))?\s+)?use\s+)((?:std|core)(?:::\w+)*)::\{")

    def find_close(t, i):
        depth = 0
        while i < len(t):
            if t[i] == "{":
                depth += 1
            elif t[i] == "}":
                depth -= 1
                if depth == 0:
                    return i
            i += 1
        return -1

    def expand(prefix, body):
        leaves = []
        for item in split_top(body):
            m = re.match(r"^((?:\w+::)*\w+)::\{(.*)\}$", item, re.S)
            if m:
                leaves += expand(prefix + "::" + m.group(1), m.group(2))
            elif item == "self":
                leaves.append(prefix)
            else:
                leaves.append(prefix + "::" + item)
        return leaves

    for _ in range(200):
        m = pat.search(text)
        if not m:
            break
        open_i = m.end() - 1
        close_i = find_close(text, open_i)
        if close_i < 0:
            break
        semi = text.find(";", close_i)
        body = text[open_i + 1:close_i]
        lines = ["%s%s%s;" % (m.group(1), m.group(2), leaf) for leaf in expand(m.group(3), body)]
        text = text[:m.start()] + "\n".join(lines) + text[semi + 1:]
    return text


SHIMMED = ("OnceLock", "LazyLock")


def rewrite(text):
    text = expand_use_groups(text)
    for name in SHIMMED:
        text = re.sub(r"\b(?:std|core)::sync::%s\b" % name, "c19shims::%s" % name, text)
    text = re.sub(r"\b(?:std|core)::sync::", "shuttle::sync::", text)
    text = re.sub(r"\buse\s+(?:std|core)::sync\s*;", "use shuttle::sync;", text)
    text = re.sub(r"\bstd::thread::", "shuttle::thread::", text)
    text = re.sub(r"\buse\s+std::thread\s*;", "use shuttle::thread;", text)
    text = re.sub(r"\bstd::thread_local!", "shuttle::thread_local!", text)
    text = re.sub(r"(?<![:\w])thread_local!", "shuttle::thread_local!", text)
    text = re.sub(r"\buse\s+shuttle::thread_local\s*;", "", text)
    text = re.sub(r"(?<![:\w])lazy_static!", "shuttle::lazy_static!", text)
    return text


def toml_value(v):
    if isinstance(v, bool):
        return "true" if v else "false"
    if isinstance(v, (int, float)):
        return str(v)
    if isinstance(v, str):
        return '"%s"' % v.replace("\\", "\\\\").replace('"', '\\"')
    if isinstance(v, list):
        return "[" + ", ".join(toml_value(x) for x in v) + "]"
    if isinstance(v, dict):
        return "{ " + ", ".join("%s = %s" % (k, toml_value(x)) for k, x in v.items()) + " }"
    raise TypeError(type(v))


def resolve_dep(name, spec, ws_deps, ws_root):
    if isinstance(spec, str):
        return {"version": spec}
    spec = dict(spec)
    if spec.pop("workspace", False):
        base = ws_deps.get(name, {})
        base = {"version": base} if isinstance(base, str) else dict(base)
        feats = list(base.get("features", [])) + [f for f in spec.pop("features", []) if f not in base.get("features", [])]
        base.update(spec)
        if feats:
            base["features"] = feats
        spec = base
    if "path" in spec and not os.path.isabs(spec["path"]):
        spec["path"] = os.path.normpath(os.path.join(ws_root, spec["path"]))
    return spec


def make_manifest(repo, crate_dir, shims_dir):
    ws = tomllib.load(open(os.path.join(repo, "Cargo.toml"), "rb"))
    cr = tomllib.load(open(os.path.join(crate_dir, "Cargo.toml"), "rb"))
    wsp = ws.get("workspace", {}).get("package", {})
    wsd = ws.get("workspace", {}).get("dependencies", {})
    pkg = cr["package"]

    def inh(key, default):
        v = pkg.get(key, default)
        if isinstance(v, dict) and v.get("workspace"):
            return wsp.get(key, default)
        return v

    out = ["[package]", 'name = "sas-lexer"', "version = %s" % toml_value(inh("version", "0.0.0")),
           "edition = %s" % toml_value(inh("edition", "2021")), 'build = "build.rs"', "publish = false", "",
           "[lib]", 'path = "src/lib.rs"', "", "[dependencies]"]
    for name, spec in cr.get("dependencies", {}).items():
        out.append("%s = %s" % (name, toml_value(resolve_dep(name, spec, wsd, repo))))
    out.append('shuttle = "0.9.3"')
    out.append("c19shims = { path = %s }" % toml_value(shims_dir))
    out += ["", "[build-dependencies]"]
    for name, spec in cr.get("build-dependencies", {}).items():
        out.append("%s = %s" % (name, toml_value(resolve_dep(name, spec, wsd, repo))))
    out += ["", "[features]"]
    for name, v in cr.get("features", {}).items():
        out.append("%s = %s" % (name, toml_value(v)))
    return "\n".join(out) + "\n"


def build_shadow(repo, dst, shims_dir):
    crate_dir = os.path.join(repo, "crates", "sas-lexer")
    if os.path.isdir(dst):
        shutil.rmtree(dst)
    os.makedirs(dst)
    shutil.copytree(os.path.join(crate_dir, "src"), os.path.join(dst, "src"),
                    ignore=shutil.ignore_patterns("tests", "snapshots", "samples"))
    shutil.copy(os.path.join(crate_dir, "build.rs"), os.path.join(dst, "build.rs"))
    changed = {}
    for root, _dirs, files in os.walk(os.path.join(dst, "src")):
        for f in files:
            if not f.endswith(".rs"):
                continue
            p = os.path.join(root, f)
            text = open(p, encoding="utf-8").read()
            new = rewrite(text)
            # the tests module is not copied
            new = re.sub(r"(?m)^#\[cfg\(test\)\]\s*\nmod tests;\s*$", "", new)
            if new != text:
                open(p, "w", encoding="utf-8").write(new)
                changed[os.path.relpath(p, dst)] = sum(1 for a, b in zip(text.splitlines(), new.splitlines()) if a != b) or 1
    open(os.path.join(dst, "Cargo.toml"), "w").write(make_manifest(repo, crate_dir, shims_dir))
    return changed


if __name__ == "__main__":
    ch = build_shadow(sys.argv[1], sys.argv[2], sys.argv[3])
    for k, v in sorted(ch.items()):
        print("rewrote %s (%d lines)" % (k, v))
