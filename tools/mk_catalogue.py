#!/usr/bin/env python3
"""Snapshot the workload catalogue base set from the repository's tests.

Run once by hand (not by the checks): the output catalogue/base.txt is committed,
so the checks never parse /repo's test files at run time.

Format of catalogue/*.txt: one source per line, `<id>\t<escaped>`, where bytes
< 0x20, >= 0x7f, '%' and '\\' are written %XX (hex, upper case).
"""
import re, sys, os

REPO = sys.argv[1] if len(sys.argv) > 1 else "/repo"
OUT = os.path.join(os.path.dirname(os.path.abspath(__file__)), "..", "catalogue")


def esc(b: bytes) -> str:
    out = []
    for c in b:
        if c < 0x20 or c >= 0x7F or c in (0x25, 0x5C):
            out.append("%%%02X" % c)
        else:
            out.append(chr(c))
    return "".join(out)


def rust_literals(text: str):
    """Yield the values of all Rust string literals in `text` (skips comments and char literals)."""
    i, n = 0, len(text)
    while i < n:
        c = text[i]
        if text.startswith("//", i):
            j = text.find("\n", i)
            i = n if j < 0 else j
            continue
        if text.startswith("/*", i):
            depth, i = 1, i + 2
            while i < n and depth:
                if text.startswith("/*", i):
                    depth += 1; i += 2
                elif text.startswith("*/", i):
                    depth -= 1; i += 2
                else:
                    i += 1
            continue
        m = re.compile(r'b?r(#*)"').match(text, i)
        if m and (i == 0 or not (text[i - 1].isalnum() or text[i - 1] == "_")):
            hashes = m.group(1)
            end = text.find('"' + hashes, m.end())
            yield text[m.end():end]
            i = end + 1 + len(hashes)
            continue
        if c == "'":
            # char literal or lifetime
            m2 = re.compile(r"'(\\.[^']*|[^\\'])'").match(text, i)
            if m2:
                i = m2.end()
            else:
                i += 1
            continue
        if c == '"':
            j = i + 1
            buf = []
            while j < n and text[j] != '"':
                ch = text[j]
                if ch == "\\":
                    nx = text[j + 1]
                    if nx == "n": buf.append("\n"); j += 2
                    elif nx == "r": buf.append("\r"); j += 2
                    elif nx == "t": buf.append("\t"); j += 2
                    elif nx == "0": buf.append("\0"); j += 2
                    elif nx == "\\": buf.append("\\"); j += 2
                    elif nx == '"': buf.append('"'); j += 2
                    elif nx == "'": buf.append("'"); j += 2
                    elif nx == "x":
                        buf.append(chr(int(text[j + 2:j + 4], 16))); j += 4
                    elif nx == "u":
                        k = text.index("}", j)
                        buf.append(chr(int(text[j + 3:k].replace("_", ""), 16))); j = k + 1
                    elif nx == "\n":
                        j += 2
                        while j < n and text[j] in " \t\n\r":
                            j += 1
                    else:
                        raise ValueError("escape \\%s at %d" % (nx, j))
                else:
                    buf.append(ch); j += 1
            yield "".join(buf)
            i = j + 1
            continue
        i += 1


def main():
    tests = os.path.join(REPO, "crates/sas-lexer/src/lexer/tests")
    src = open(os.path.join(tests, "test_inline_strings.rs"), encoding="utf-8").read()
    seen, items = set(), []

    def add(prefix, s):
        b = s.encode("utf-8")
        if b in seen:
            return
        seen.add(b)
        items.append((prefix, b))

    for lit in rust_literals(src):
        add("t", lit)
    for name in sorted(os.listdir(os.path.join(tests, "samples"))):
        add("s", open(os.path.join(tests, "samples", name), encoding="utf-8").read())
    # keyword spellings from token_type.rs (Kw* -> word, Kwm* -> %word)
    tt = open(os.path.join(REPO, "crates/sas-lexer/src/lexer/token_type.rs"), encoding="utf-8").read()
    for m in re.finditer(r"^\s+(Kwm?)([A-Z][A-Za-z0-9_]*)\b", tt, re.M):
        word = m.group(2).lower()
        if m.group(1) == "Kwm":
            add("k", "%" + word)
            add("k", "%" + word + " a b;")
            add("k", "%" + word + "(a,b)")
        else:
            add("k", word)
            add("k", word + ";")
    os.makedirs(OUT, exist_ok=True)
    with open(os.path.join(OUT, "base.txt"), "w", encoding="ascii") as f:
        for k, (prefix, b) in enumerate(items):
            f.write("%s%05d\t%s\n" % (prefix, k, esc(b)))
    print("wrote", len(items), "sources,", sum(len(b) for _, b in items), "bytes")


if __name__ == "__main__":
    main()
