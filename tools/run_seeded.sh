#!/bin/bash
# usage: tools/run_seeded.sh <tier> <patch.diff>...   - apply each change to /repo, run the check, undo it
# Prints one summary line per change. Never leaves /repo modified.
tier=$1; shift
cd /verif || exit 2
for p in "$@"; do
  name=$(basename $(dirname $p))
  if ! git -C /repo diff --quiet; then echo "/repo is dirty, refusing"; exit 2; fi
  git -C /repo apply $p || { echo "$name APPLY-FAILED"; continue; }
  out=/tmp/seeded_$name.log
  t0=$(date +%s)
  ./check C19 $tier > $out 2>&1; code=$?
  t1=$(date +%s)
  git -C /repo checkout -q -- . ; git -C /repo clean -fdq -e target
  nv=$(grep -c '^VIOLATION' $out)
  kinds=$(grep -A1 '^VIOLATION' $out | grep -v '^VIOLATION' | grep -v '^--' | sed 's/^  //' | cut -c1-110 | head -3 | tr '\n' '|')
  echo "$name exit=$code violations=$nv secs=$((t1-t0)) :: $kinds"
done
